import Slock.Model.Value
/-
M-ACK: require-ack locks (C11). A small lock engine for the keys involved (server/db.go `Lock` / `UnLock` / `wakeUpWaitLocks` /
`doTimeOut` / `doExpried` / `DoAckLock`, server/lock.go `AddLock` / `RemoveLock` / `ProcessLockData(…, requireRecover)` /
`ProcessAckLockData` / `ProcessRecoverLockData`) together with the leader side of `ReplicationAckDB` (server/replication.go:
`ProcessLeaderPushLock`, `ProcessLeaderPushUnLock`, `ProcessLeaderAofed`, `ProcessLeaderAcked`, `SwitchToFollower`, `FlushDB`),
`ReplicationManager.PushLock`'s gate and `UpdateDBAckCount`. Written to mirror the code that exists — the tree with the repairs
e4ad793 (re-entrant require-ack LOCK: UPDATED record journalled without the ack registration, `Rec.noAckFlag`), 804e6dc (unlock-first
honours the pending test, `classifyUnlock`) and f622546 (`leaderPushLock` does not register a lock that is no longer held), and with
the C04 repair (a wake pass after the TIMEOUT of a queued request, `DB.dropWaiter` + `wake` in `fireTimeout`, and after the reply of a
re-entrant re-lock, `DB.relockHold` + `wake` in `applyLock`; its other two sites, cancel-wait and UPDATE, are outside the subset). Core Lean only.

Granularity. One event = one complete call of a real entry point, executed to completion before the next one starts (in the server the
journal delivery, the flush report and the follower answers run on other goroutines; each of them takes the ack-table mutex and then the
key's mutex, so at critical-section granularity every execution is SOME sequence of these events):
  `lock c` / `unlock c`  LockDB.Lock / LockDB.UnLock incl. the wake pass they start
  `tick`                 one second: clock +1, checkTimeTimeOut, checkTimeExpried of that second
  `push k` / `pushW k`   the journal channel delivers the oldest pending record of key k: ReplicationManager.PushLock
                         (`pushW`: … and Aof.PushLock then reports a write error, so AofChannel.HandleLock calls DoAckLock(lock, false))
  `aofed id ok`          the leader's own flush of record id reported (Aof.lockAcked → AofChannel.HandleAofAcked → ProcessLeaderAofed)
  `acked id f ok`        a follower's answer for record id (AofChannel.HandleAcked → ProcessLeaderAcked); `f` = which follower said so:
                         the code does not look at it (kept in the table entry as a history variable only)
  `role b`               slock.state / db.status := LEADER | FOLLOWER
  `demote o` / `flush o` ReplicationAckDB.SwitchToFollower / FlushDB: every registered lock is failed; `o` = the order in which the Go map
                         iteration visited the entries that answered (observed by the harness; the rest follows in table order)
  `closed b`             the journal channel refuses pushes (AofChannel.closed: PushLockAof / PushUnLockAof return io.EOF)

Records. Every `Lock` object lives in `DB.recs`; the live holders of a key are the records of that key with `depth > 0` IN LIST ORDER
(a grant moves the record to the end of the list, so list order = grant order and the first one is `currentLock`), the live queued
requests are those with `queued` (FIFO = list order). A record that stopped being a holder stays in the list (depth 0): the ack table and
the journal can still point at it — that is how the code behaves too (`aofLocks[id] = lock`).

Command subset (everything else is refused by the driver as out-of-subset): LOCK with Flag ∈ {0, contains-data}, TimeoutFlag ∈ {0,
require-ack 0x1000}, ExpriedFlag 0, 0 < Expried < 190, value frames SET / INCR (8-byte operand) / APPEND without property header;
PIPELINE frames made of those; UNLOCK with Flag ∈ {0, unlock-first 0x01} and no value frame. db.aofTime is 200 s in the harness, so holds that did not go through the
ack branch are never journalled by age (Expried < 190); key records are pinned for the duration of a history (the value cell is not
recycled). Not modelled: lock-record reference counts and the recycling of freed `Lock` objects (see tools/props/c11.py FINISH).
-/
namespace Slock.Ack
open Slock.Value (leN le32 le64 readLE)

abbrev Bytes := List UInt8

def R_SUCCED := 0
def R_LOCKED_ERROR := 5
def R_UNLOCK_ERROR := 6
def R_UNOWN_ERROR := 7
def R_TIMEOUT := 8
def R_EXPRIED := 9
def R_STATE_ERROR := 10
def R_ERROR := 11
def R_ACK_WAITING := 12

def F_DATA := 0x20
def UF_FIRST := 1
def TF_ACK := 0x1000
/-- `lock.ackCount == 0xff`: not waiting for acknowledgements -/
def NOACK := 0xff
def MAX_WAIT : Nat := 8
def WAIT_LEADER_MAX := 300

def has (x flag : Nat) : Bool := x &&& flag != 0

structure Cmd where
  req : Nat
  conn : Nat
  flag : Nat
  lockId : Nat
  key : Nat
  tflag : Nat
  timeout : Nat
  expried : Nat
  count : Nat
  rcount : Nat
  data : Option Bytes := none
  deriving Repr, DecidableEq, Inhabited

def Cmd.ack (c : Cmd) : Bool := has c.tflag TF_ACK

/-! ### configuration: `UpdateDBAckCount` -/

structure Cfg where
  followers : Nat
  majority : Bool
  deriving Repr, DecidableEq, Inhabited

/-- `db.ackCount`: all → followers + 1 (the leader's own flush counts as one), majority → (followers + 1) / 2 + 1 -/
def reqAcks (c : Cfg) : Nat := if c.majority then (c.followers + 1) / 2 + 1 else c.followers + 1

/-! ### value cell with the undo record (`LockManagerData`, `LockData.recoverData / recoverValue / currentData`) -/

structure Cell where
  data : Bytes
  ctype : Nat        -- 0 SET, 1 UNSET, 2 INCR, 3 APPEND
  deriving Repr, DecidableEq, Inhabited

def unsetCell : Cell := ⟨[2, 0, 0, 0, 1, 0], 1⟩
def Cell.hasData (c : Cell) : Bool := c.ctype != 1
/-- `GetLockData` -/
def getData : Option Cell → Option Bytes
  | some c => if c.hasData then some c.data else none
  | none => none
/-- `GetIncrValue` (value offset 6: no cell of the subset carries a property header) -/
def Cell.incrValue (c : Cell) : Nat := if c.hasData then readLE ((c.data.drop 6).take 8) else 0

structure Undo where
  post : Cell              -- `lock.data.currentData`: the cell right after this lock's own operation
  pre : Option Cell        -- `recoverData`
  val : Nat := 0           -- INCR: the operand; APPEND: index
  len : Nat := 0           -- APPEND: appended length
  snap : Bool := false     -- `recoverValue == nil` although the operation is not SET: the record of a PIPELINE (undo = put `pre` back)
  deriving Repr, DecidableEq, Inhabited

/-- is `f` a simple value frame of the subset: ≥ 6 bytes, stage 0, type SET / INCR with 8-byte operand / APPEND, no property / first-or-last flag -/
def simpleOk (f : Bytes) : Bool :=
  decide (6 ≤ f.length) && (f.getD 4 0).toNat / 64 == 0 && (f.getD 5 0).toNat &&& 0x30 == 0 &&
    ((f.getD 4 0).toNat % 64 == 0 || ((f.getD 4 0).toNat % 64 == 2 && f.length == 14) || (f.getD 4 0).toNat % 64 == 3)

/-- the body of a PIPELINE frame cut into its sub-frames (`[len:4 LE][len bytes]` each, nothing left over); `fuel` ≥ number of bytes -/
def splitFrames : Nat → Bytes → Option (List Bytes)
  | 0, _ => none
  | fuel + 1, b =>
    if b.isEmpty then some []
    else if b.length < 4 then none
    else
      let l := readLE (b.take 4)
      if 4 + l > b.length then none
      else match splitFrames fuel (b.drop (4 + l)) with
        | some r => some (b.take (4 + l) :: r)
        | none => none

def pipeSubs (f : Bytes) : Option (List Bytes) := splitFrames (f.length + 1) (f.drop 6)

/-- a PIPELINE frame of the subset: type 6, flag 0, exactly the concatenation of one or more simple frames of the subset -/
def pipeOk (f : Bytes) : Bool :=
  decide (6 ≤ f.length) && (f.getD 4 0).toNat == 6 && (f.getD 5 0).toNat == 0 &&
    (match pipeSubs f with
     | some (g :: gs) => (g :: gs).all simpleOk
     | _ => false)

/-- is `f` a value frame of the subset -/
def frameOk (f : Bytes) : Bool := simpleOk f || pipeOk f

/-- `ProcessLockData(command, lock, requireRecover)` for a simple frame of the subset: the new cell and the undo record it saves -/
def applySimple (cur : Option Cell) (f : Bytes) : Cell × Undo :=
  let t := (f.getD 4 0).toNat % 64
  if t == 0 then
    let post : Cell := ⟨f, 0⟩
    (post, { post := post, pre := cur })
  else if t == 2 then
    let k := readLE ((f.drop 6).take 8)
    let base := match cur with | some x => x.incrValue | none => 0
    let v := (k + base) % 2 ^ 64
    let post : Cell := ⟨f.take 4 ++ [0, (f.getD 5 0) ||| 1] ++ le64 v, 2⟩
    (post, { post := post, pre := cur, val := k })
  else
    let post : Cell :=
      match cur with
      | some x =>
        if x.hasData then ⟨le32 (x.data.length - 4 + (f.length - 6)) ++ [0, x.data.getD 5 0] ++ x.data.drop 6 ++ f.drop 6, 3⟩
        else ⟨f.take 4 ++ [0] ++ f.drop 5, 3⟩
      | none => ⟨f.take 4 ++ [0] ++ f.drop 5, 3⟩
    (post, { post := post, pre := cur, val := post.data.length - f.length + 6, len := f.length - 6 })

/-- `ProcessLockData` for a frame of the subset. PIPELINE: the code puts the cell back to what it was BEFORE the pipeline ahead of every
sub-operation (`command.CommandType != LOCK_DATA_COMMAND_TYPE_PIPELINE` compares the LOCK command's type, always true), so the cell the
pipeline leaves is the LAST sub-operation applied to the cell before the pipeline; the undo record is `SaveRecoverData(cell before, nil)`. -/
def applyFrame (cur : Option Cell) (f : Bytes) : Cell × Undo :=
  if (f.getD 4 0).toNat % 64 == 6 then
    match (pipeSubs f).bind List.getLast? with
    | some g => let a := applySimple cur g; (a.1, { post := a.1, pre := cur, snap := true })
    | none => (cur.getD unsetCell, { post := cur.getD unsetCell, pre := cur, snap := true })   -- (not a frame of the subset)
  else applySimple cur f

/-- `ProcessRecoverLockData(lock)`: `cur` = the key's cell now -/
def undoCell (cur : Option Cell) (u : Undo) : Option Cell :=
  match cur with
  | none => none        -- (the Go code would dereference nil; a key whose cell was set never loses it while pinned)
  | some c =>
    if c.ctype != 1 && u.post.ctype != c.ctype then some c
    else
      match u.pre with
      | none => some unsetCell
      | some p =>
        if u.post.ctype == 0 then some p
        else if u.snap then (if c.data == p.data then some c else some p)   -- c3f898d: no operand recorded = a pipeline: the saved cell comes back
        else if u.post.ctype == 2 then
          some ⟨[10, 0, 0, 0, 0, 1] ++ le64 ((u.post.incrValue + 2 ^ 64 - u.val % 2 ^ 64) % 2 ^ 64), 2⟩
        else if u.post.ctype == 3 then
          if u.post.data.length ≥ u.val + u.len then
            some ⟨le32 (u.post.data.length - 4 - u.len) ++ [0, u.post.data.getD 5 0] ++ (u.post.data.drop 6).take (u.val - 6)
                    ++ u.post.data.drop (u.val + u.len), 3⟩
          else some c
        else some c

/-! ### timer wheels (per record: the second at which the sweeper next looks at it; as in M-ENGINE stage 1) -/

structure Sched where
  visit : Nat
  long : Bool
  seq : Nat
  checked : Nat
  deriving Repr, DecidableEq, Inhabited

def wheelAdd (check seq : Nat) (d n : Nat) : Nat × Sched :=
  if n > MAX_WAIT then
    let d' := if d < check then check else d
    (d', { visit := d', long := true, seq := seq, checked := n })
  else
    let v := check + n
    let v := if d < v then (if d < check then check else d) else v
    (d, { visit := v, long := false, seq := seq, checked := n })

def insertBySeq {α} (seqOf : α → Nat) (x : α) : List α → List α
  | [] => [x]
  | y :: ys => if seqOf x < seqOf y then x :: y :: ys else y :: insertBySeq seqOf x ys

def sortBySeq {α} (seqOf : α → Nat) (l : List α) : List α := l.foldl (fun acc x => insertBySeq seqOf x acc) []

/-! ### state -/

/-- one `Lock` object -/
structure Rec where
  hid : Nat
  cmd : Cmd                  -- `lock.command` (also gives `lock.protocol`: the connection of that command)
  depth : Nat := 0           -- `lock.locked`
  ack : Nat := NOACK         -- `lock.ackCount`
  isAof : Bool := false
  queued : Bool := false     -- a live entry of the wait queue
  timeouted : Bool := true   -- tombstone for the timeout wheel
  expried : Bool := true     -- tombstone for the expiry wheel
  startT : Nat := 0
  expT : Nat := 0
  timeoutT : Nat := 0
  tsched : Sched := default
  esched : Sched := default
  undo : Option Undo := none -- `lock.data` (recover part)
  deriving Repr, DecidableEq, Inhabited

structure Key where
  key : Nat
  locked : Nat := 0
  waited : Bool := false
  cell : Option Cell := none
  deriving Repr, DecidableEq, Inhabited

/-- an entry of `commandAofs` / `aofLocks` (the two maps are filled and emptied together). `oks` is a history variable: who sent the
positive reports counted for it since it was registered (`none` = the leader's own flush, `some f` = follower f, in order, duplicates
included); no transition reads it. -/
structure Ent where
  id : Nat
  req : Nat
  hid : Nat
  oks : List (Option Nat) := []
  deriving Repr, DecidableEq, Inhabited

/-- what `AofChannel.Push` was handed and the channel has not delivered yet -/
structure JRec where
  key : Nat
  isLock : Bool
  hid : Option Nat           -- `aofLock.lock` (set iff the lock's command carries the require-ack flag)
  deriving Repr, DecidableEq, Inhabited

structure Counters where
  lockCount : Int := 0
  unLockCount : Int := 0
  lockedCount : Int := 0
  waitCount : Int := 0
  timeoutedCount : Int := 0
  expriedCount : Int := 0
  unlockErrorCount : Int := 0
  deriving Repr, DecidableEq, Inhabited

structure Reply where
  conn : Nat
  req : Nat
  result : Nat
  lcount : Nat
  lrcount : Nat
  data : Option Bytes
  /-- the request's command carried the require-ack flag (not on the wire: used by the theorems) -/
  ack : Bool
  deriving Repr, DecidableEq, Inhabited

structure DB where
  cfg : Cfg
  keys : List Key := []
  recs : List Rec := []
  tab : List Ent := []
  journal : List JRec := []
  now : Nat
  tCheck : Nat
  eCheck : Nat
  seq : Nat := 0
  nextHid : Nat := 1
  nextId : Nat := 0
  leader : Bool := true
  closed : Bool := false
  ctr : Counters := {}
  deriving Repr, DecidableEq, Inhabited

def DB.init (cfg : Cfg) (now : Nat) : DB := { cfg := cfg, now := now, tCheck := now + 1, eCheck := now + 1 }

def DB.getKey (db : DB) (k : Nat) : Key := (db.keys.find? (·.key == k)).getD { key := k }

def DB.setKey (db : DB) (k : Key) : DB :=
  if db.keys.any (·.key == k.key) then { db with keys := db.keys.map (fun x => if x.key == k.key then k else x) }
  else { db with keys := db.keys ++ [k] }

def DB.modKey (db : DB) (k : Nat) (f : Key → Key) : DB := db.setKey (f (db.getKey k))

def deadRec (hid : Nat) : Rec := { hid := hid, cmd := default }

def DB.getR (db : DB) (hid : Nat) : Rec := (db.recs.find? (·.hid == hid)).getD (deadRec hid)

/-- apply `f` to the (first) record with identity `hid` -/
def modRecs (hid : Nat) (f : Rec → Rec) : List Rec → List Rec
  | [] => []
  | r :: rs => if r.hid == hid then f r :: rs else r :: modRecs hid f rs

def DB.modR (db : DB) (hid : Nat) (f : Rec → Rec) : DB := { db with recs := modRecs hid f db.recs }

/-- the record becomes the youngest holder: moved to the end of the list -/
def DB.toEnd (db : DB) (hid : Nat) : DB :=
  { db with recs := db.recs.filter (·.hid != hid) ++ db.recs.filter (·.hid == hid) }

def DB.holders (db : DB) (k : Nat) : List Rec := db.recs.filter (fun r => r.cmd.key == k && decide (r.depth > 0))
def DB.waiters (db : DB) (k : Nat) : List Rec := db.recs.filter (fun r => r.cmd.key == k && r.queued)

def Rec.pending (r : Rec) : Bool := r.ack != NOACK

def mkReply (c : Cmd) (result lcount lrcount : Nat) (data : Option Bytes) : Reply :=
  { conn := c.conn, req := c.req, result := result, lcount := lcount % 65536, lrcount := lrcount % 256, data := data, ack := c.ack }

def DB.ctrMod (db : DB) (f : Counters → Counters) : DB := { db with ctr := f db.ctr }

/-- `LockDB.doLock` (core subset) -/
def doLock (db : DB) (k : Nat) (c : Cmd) : Bool :=
  let locked := (db.getKey k).locked
  if locked == 0 then true
  else if c.count == 0 then false
  else
    match (db.holders k).head? with
    | none => false
    | some cur =>
      if locked ≥ 0xffff then
        if locked ≥ 0x7fffffff then false
        else cur.cmd.count == 0xffff && c.count == 0xffff
      else locked ≤ cur.cmd.count && locked ≤ c.count

/-- `GetLockedLock`: the oldest live holder with that LockId -/
def findHolder (db : DB) (k lockId : Nat) : Option Rec := (db.holders k).find? (·.cmd.lockId == lockId)

/-- the frame a command carries: looked at only when the contains-data flag is set and the frame is of the subset -/
def frameOf (c : Cmd) : Option Bytes :=
  if has c.flag F_DATA then (match c.data with | some f => if frameOk f then some f else none | none => none) else none

/-! ### journalling (`PushLockAof` / `PushUnLockAof`): `true` = the push succeeded -/

def DB.pushJ (db : DB) (r : Rec) (isLock : Bool) : DB × Bool :=
  if !db.leader then (db, true)          -- `status != STATE_LEADER`: returns nil without pushing (and without setting isAof)
  else if db.closed then (db, false)
  else ({ db with journal := db.journal ++ [{ key := r.cmd.key, isLock := isLock, hid := if r.cmd.ack then some r.hid else none }] }, true)

/-- the record as `AofChannel.Push` sees it while the command's require-ack bit is cleared (`pushJ` looks at the key, the identity and
that bit only; the subset has no other TimeoutFlag bit) -/
def Rec.noAckFlag (r : Rec) : Rec := { r with cmd := { r.cmd with tflag := 0 } }

/-- `PushLockAof(lock, flag)`: on success `lock.isAof = true` (only when something was pushed) -/
def DB.pushLock (db : DB) (hid : Nat) : DB × Bool :=
  let p := db.pushJ (db.getR hid) true
  ((if p.2 && db.leader then p.1.modR hid (fun r => { r with isAof := true }) else p.1), p.2)

/-- `if lock.isAof { PushUnLockAof(…, isAof, flag) }` -/
def DB.journalUnlock (db : DB) (hid : Nat) (keep : Bool) : DB :=
  if (db.getR hid).isAof then
    let p := db.pushJ (db.getR hid) false
    if p.2 && db.leader then p.1.modR hid (fun r => { r with isAof := keep }) else p.1
  else db

/-- `RemoveLock`: no longer a holder, not pending -/
def DB.removeLock (db : DB) (hid : Nat) : DB := db.modR hid (fun r => { r with depth := 0, ack := NOACK })

/-! ### granting -/

/-- `GetOrNewLock` -/
def DB.newRec (db : DB) (c : Cmd) : DB × Nat :=
  let r : Rec := { hid := db.nextHid, cmd := c, startT := db.now, timeoutT := db.now + c.timeout + 1 }
  ({ db with recs := db.recs ++ [r], nextHid := db.nextHid + 1 }, db.nextHid)

/-- what `AddLock` does to the record -/
def Rec.addLockF (now : Nat) (r : Rec) : Rec :=
  { r with
    depth := 1, startT := now, expT := now + r.cmd.expried + 1, queued := false,
    ack := if r.cmd.ack then 0 else r.ack,
    esched := { r.esched with checked := 1 } }

/-- what `UpdateLockedLock` does to the record -/
def Rec.updateF (now : Nat) (c : Cmd) (r : Rec) : Rec :=
  { r with
    cmd := c, startT := now, timeoutT := now + c.timeout + 1, expT := now + c.expried + 1,
    esched := { r.esched with checked := 1 } }

/-- `AddLock` + `locked++` -/
def DB.addLock (db : DB) (hid : Nat) : DB :=
  let db1 := (db.modR hid (Rec.addLockF db.now)).toEnd hid
  db1.modKey (db.getR hid).cmd.key (fun k => { k with locked := k.locked + 1 })

/-- `AddExpried` (scheduling half) -/
def DB.addExpried (db : DB) (hid : Nat) : DB :=
  let r := db.getR hid
  let a := wheelAdd db.eCheck db.seq r.expT r.esched.checked
  { db.modR hid (fun r => { r with expried := false, expT := a.1, esched := a.2 }) with seq := db.seq + 1 }

/-- `AddTimeOut` -/
def DB.addTimeOut (db : DB) (hid : Nat) : DB :=
  let r := db.getR hid
  let a := wheelAdd db.tCheck db.seq r.timeoutT 1
  { db.modR hid (fun r => { r with timeouted := false, timeoutT := a.1, tsched := a.2 }) with seq := db.seq + 1 }

/-- the value operation of a grant; `recover` = keep the undo record -/
def DB.valueOp (db : DB) (hid : Nat) (recover : Bool) : DB :=
  let r := db.getR hid
  match frameOf r.cmd with
  | none => db
  | some f =>
    let a := applyFrame (db.getKey r.cmd.key).cell f
    let db1 := db.modKey r.cmd.key (fun k => { k with cell := some a.1 })
    if recover then db1.modR hid (fun r => { r with undo := some a.2 }) else db1

def DB.curData (db : DB) (k : Nat) : Option Bytes := getData (db.getKey k).cell

/-- ordinary grant (Expried > 0, no ack phase): hold, value operation, expiry wheel, SUCCED with the previous value -/
def DB.grant (db : DB) (hid : Nat) : DB × Reply :=
  let c := (db.getR hid).cmd
  let v0 := db.curData c.key
  let db1 := ((db.modR hid (fun r => { r with timeouted := true })).addLock hid).valueOp hid false
  let db2 := (db1.addExpried hid).ctrMod (fun x => { x with lockCount := x.lockCount + 1, lockedCount := x.lockedCount + 1 })
  (db2, mkReply c R_SUCCED (db2.getKey c.key).locked 1 v0)

/-- the failure exit of `DoAckLock` / the ack-pending part of `doTimeOut`: hold removed, value undone, unlock record journalled -/
def DB.rollback (db : DB) (hid : Nat) : DB :=
  let r := db.getR hid
  let db1 := db.modKey r.cmd.key (fun k => { k with locked := k.locked - r.depth })
  let db2 := match (if has r.cmd.flag F_DATA && r.pending then r.undo else none) with
    | some u => (db1.modKey r.cmd.key (fun k => { k with cell := undoCell k.cell u })).modR hid (fun r => { r with undo := none })
    | none => db1
  ((db2.journalUnlock hid false).removeLock hid).ctrMod (fun x => { x with lockCount := x.lockCount - 1, lockedCount := x.lockedCount - 1 })

/-! ### wake pass -/

inductive WakeBranch
  | stop                 -- no live waiter, or the head is not admissible
  | grant (w : Nat)      -- ordinary grant of the head
  | ackGrant (w : Nat)   -- require-ack head: becomes an ack-pending hold, no reply
  | ackFail (w : Nat)    -- … but the journal refused the record: DoAckLock(false) at once
  deriving Repr, DecidableEq

def classifyWake (db : DB) (k : Nat) : WakeBranch :=
  match (db.waiters k).head? with
  | none => .stop
  | some w =>
    if !doLock db k w.cmd then .stop
    else if w.cmd.ack then (if db.leader && db.closed then .ackFail w.hid else .ackGrant w.hid)
    else .grant w.hid

/-- `wakeUpWaitLock` ack branch up to the push -/
def DB.ackHold (db : DB) (hid : Nat) : DB :=
  ((db.addLock hid).valueOp hid true).ctrMod (fun x => { x with lockCount := x.lockCount + 1, lockedCount := x.lockedCount + 1 })

def applyWake (db : DB) (k : Nat) : WakeBranch → DB × List Reply
  | .stop => (db, [])
  | .grant w =>
    let g := (db.ctrMod (fun x => { x with waitCount := x.waitCount - 1 })).grant w
    (g.1, [g.2])
  | .ackGrant w =>
    (((db.ackHold w).pushLock w).1.ctrMod (fun x => { x with waitCount := x.waitCount - 1 }), [])
  | .ackFail w =>
    let c := (db.getR w).cmd
    let db1 := ((db.ackHold w).ctrMod (fun x => { x with waitCount := x.waitCount - 1 })).modR w (fun r => { r with timeouted := true })
    let db2 := db1.rollback w
    (db2, [mkReply c R_ERROR (db2.getKey k).locked 0 (db2.curData k)])

/-- `wakeUpWaitLocks`: fuel = number of live waiters + 1 -/
def wakeLoop : Nat → DB → Nat → List Reply → DB × List Reply
  | 0, db, _, out => (db, out)
  | fuel + 1, db, k, out =>
    match classifyWake db k with
    | .stop => ((if (db.waiters k).isEmpty then db.modKey k (fun x => { x with waited := false }) else db), out)
    | b => let r := applyWake db k b; wakeLoop fuel r.1 k (out ++ r.2)

def DB.wake (db : DB) (k : Nat) (out : List Reply) : DB × List Reply :=
  if (db.getKey k).waited then wakeLoop ((db.waiters k).length + 1) db k out else (db, out)

/-! ### `DoAckLock` -/

inductive AckBranch
  | settled              -- ackCount == 0xff: nothing to do
  | update               -- not an ack-pending fresh hold any more (hold in the expiry wheel, or no hold at all): LOCKED_ERROR
  | succeed
  | fail
  deriving Repr, DecidableEq

def classifyAck (db : DB) (hid : Nat) (ok : Bool) : AckBranch :=
  let r := db.getR hid
  if !r.pending then .settled
  else if !r.expried || r.depth == 0 then .update
  else if ok then .succeed else .fail

/-- what `ProcessAckLockData` returns -/
def ackData (db : DB) (r : Rec) : Option Bytes :=
  match (if has r.cmd.flag F_DATA then r.undo else none) with
  | some u => getData u.pre
  | none => db.curData r.cmd.key

def applyAck (db : DB) (hid : Nat) (b : AckBranch) : DB × List Reply :=
  let db0 := db.modR hid (fun r => { r with timeouted := true })
  let r := db0.getR hid
  match b with
  | .settled => (db0, [])
  | .update =>
    (db0.modR hid (fun r => { r with ack := NOACK, undo := none }), [mkReply r.cmd R_LOCKED_ERROR (db0.getKey r.cmd.key).locked r.depth (ackData db0 r)])
  | .succeed =>
    let db1 := (db0.modR hid (fun r => { r with ack := NOACK, undo := none, expT := r.startT + r.cmd.expried + 1 })).addExpried hid
    (db1, [mkReply r.cmd R_SUCCED (db1.getKey r.cmd.key).locked r.depth (ackData db0 r)])
  | .fail =>
    let db1 := db0.rollback hid
    db1.wake r.cmd.key [mkReply r.cmd R_ERROR (db1.getKey r.cmd.key).locked 0 (db1.curData r.cmd.key)]

def ackDone (db : DB) (hid : Nat) (ok : Bool) : DB × List Reply := applyAck db hid (classifyAck db hid ok)

/-! ### LOCK -/

inductive LockBranch
  | stateError
  | ackWaiting (h : Nat)
  | relock (h : Nat) | relockRefused (h : Nat)
  | grant | ackGrant | queue | timeout
  deriving Repr, DecidableEq

def classifyLock (db : DB) (c : Cmd) : LockBranch :=
  let k := db.getKey c.key
  if !db.leader then .stateError
  else
    let afterHeld (waited : Bool) : LockBranch :=
      if !waited && doLock db c.key c then (if c.ack then .ackGrant else .grant)
      else if c.timeout > 0 then .queue else .timeout
    if k.locked > 0 then
      match findHolder db c.key c.lockId with
      | some h =>
        if h.pending then .ackWaiting h.hid
        else if h.depth < 0xff && h.depth ≤ c.rcount then .relock h.hid else .relockRefused h.hid
      | none => afterHeld k.waited
    else afterHeld false

/-- `UpdateLockedLock` + long-table move for a re-lock of hold `h` by `c` -/
def DB.updateHold (db : DB) (hid : Nat) (c : Cmd) : DB :=
  let h := db.getR hid
  let expT := db.now + c.expried + 1
  let db1 := db.modR hid (Rec.updateF db.now c)
  if h.esched.long && expT != h.expT then db1.addExpried hid else db1

/-- the re-entrant re-lock of hold `h` by command `c`, up to the reply -/
def DB.relockHold (db : DB) (c : Cmd) (h : Nat) : DB :=
  let db1 := (db.modR h (fun r => { r with depth := r.depth + 1 })).modKey c.key (fun k => { k with locked := k.locked + 1 })
  -- the value operation runs with the NEW command on the old record, without undo record
  let db2 := match frameOf c with
    | some f => db1.modKey c.key (fun k => { k with cell := some (applyFrame k.cell f).1 })
    | none => db1
  let db3 := db2.updateHold h c
  -- the hold is journalled already: its UPDATED record is pushed with the require-ack bit cleared (no lock pointer, no registration)
  let db4 := if (db3.getR h).isAof then (db3.pushJ (db3.getR h).noAckFlag true).1 else db3
  db4.ctrMod (fun x => { x with lockCount := x.lockCount + 1, lockedCount := x.lockedCount + 1 })

def applyLock (db : DB) (c : Cmd) : LockBranch → DB × List Reply
  | .stateError => (db, [mkReply c R_STATE_ERROR (db.getKey c.key).locked 0 (db.curData c.key)])
  | .ackWaiting h => (db, [mkReply c R_ACK_WAITING (db.getKey c.key).locked (db.getR h).depth (db.curData c.key)])
  | .relockRefused h => (db, [mkReply c R_LOCKED_ERROR (db.getKey c.key).locked (db.getR h).depth (db.curData c.key)])
  | .relock h =>
    let v0 := db.curData c.key
    let d := db.relockHold c h
    -- the re-lock can have changed what a queued request is admissible against: wake pass after the reply
    d.wake c.key [mkReply c R_SUCCED (d.getKey c.key).locked (d.getR h).depth v0]
  | .grant =>
    let waited := (db.getKey c.key).waited
    let n := db.newRec c
    let g := n.1.grant n.2
    if waited then g.1.wake c.key [g.2] else (g.1, [g.2])
  | .ackGrant =>
    let n := db.newRec c
    let p := ((n.1.ackHold n.2).addTimeOut n.2).pushLock n.2
    if p.2 then (p.1, []) else ackDone p.1 n.2 false
  | .queue =>
    let n := db.newRec c
    let db1 := ((n.1.modR n.2 (fun r => { r with queued := true })).addTimeOut n.2).modKey c.key (fun k => { k with waited := true })
    (db1.ctrMod (fun x => { x with waitCount := x.waitCount + 1 }), [])
  | .timeout => (db, [mkReply c R_TIMEOUT (db.getKey c.key).locked 0 (db.curData c.key)])

def opLock (db : DB) (c : Cmd) : DB × List Reply := applyLock db c (classifyLock db c)

/-! ### UNLOCK -/

inductive UnlockBranch
  | stateError | notLocked | unown
  | ackWaiting (h : Nat)
  | dec (h : Nat) | release (h : Nat)
  deriving Repr, DecidableEq

def classifyUnlock (db : DB) (c : Cmd) : UnlockBranch :=
  let k := db.getKey c.key
  if !db.leader then .stateError
  else if k.locked == 0 then .notLocked
  else
    let go (h : Rec) (rcount : Nat) : UnlockBranch := if h.depth > 1 && rcount > 0 then .dec h.hid else .release h.hid
    match findHolder db c.key c.lockId with
    | some h => if h.pending then .ackWaiting h.hid else go h c.rcount
    | none =>
      if has c.flag UF_FIRST then
        -- `currentLock`; the ack-pending test applies to it as well
        match (db.holders c.key).head? with
        | some h => if h.pending then .ackWaiting h.hid else go h h.cmd.rcount
        | none => .unown
      else .unown

def DB.bumpErr (db : DB) : DB := db.ctrMod (fun x => { x with unlockErrorCount := x.unlockErrorCount + 1 })

def applyUnlock (db : DB) (c : Cmd) : UnlockBranch → DB × List Reply
  | .stateError => (db.bumpErr, [mkReply c R_STATE_ERROR (db.getKey c.key).locked 0 (db.curData c.key)])
  | .notLocked => (db.bumpErr, [mkReply c R_UNLOCK_ERROR 0 0 (db.curData c.key)])
  | .unown => (db.bumpErr, [mkReply c R_UNOWN_ERROR (db.getKey c.key).locked 0 (db.curData c.key)])
  | .ackWaiting h => (db.bumpErr, [mkReply c R_ACK_WAITING (db.getKey c.key).locked (db.getR h).depth (db.curData c.key)])
  | .dec h =>
    let db1 := (db.modR h (fun r => { r with depth := r.depth - 1 })).modKey c.key (fun k => { k with locked := k.locked - 1 })
    let db2 := (db1.journalUnlock h true).ctrMod (fun x => { x with unLockCount := x.unLockCount + 1, lockedCount := x.lockedCount - 1 })
    db2.wake c.key [mkReply c R_SUCCED (db2.getKey c.key).locked (db2.getR h).depth (db.curData c.key)]
  | .release h =>
    let d := (db.getR h).depth
    let db1 := (db.modR h (fun r => { r with expried := true })).modKey c.key (fun k => { k with locked := k.locked - d })
    let db2 := ((db1.journalUnlock h false).removeLock h).ctrMod
      (fun x => { x with unLockCount := x.unLockCount + d, lockedCount := x.lockedCount - d })
    db2.wake c.key [mkReply c R_SUCCED (db2.getKey c.key).locked 0 (db.curData c.key)]

def opUnlock (db : DB) (c : Cmd) : DB × List Reply := applyUnlock db c (classifyUnlock db c)

/-! ### timer sweeps -/

/-- the waiter branch of `doTimeOut`, up to the reply: the request leaves the queue -/
def DB.dropWaiter (db : DB) (hid : Nat) : DB :=
  let r := db.getR hid
  let db1 := (db.modR hid (fun r => { r with timeouted := true })).modR hid (fun r => { r with queued := false })
  let db2 := if (db1.waiters r.cmd.key).isEmpty then db1.modKey r.cmd.key (fun k => { k with waited := false }) else db1
  db2.ctrMod (fun x => { x with waitCount := x.waitCount - 1, timeoutedCount := x.timeoutedCount + 1 })

/-- `doTimeOut(lock)` for a record whose timeout entry is live -/
def fireTimeout (db : DB) (hid : Nat) : DB × List Reply :=
  let r := db.getR hid
  let db0 := db.modR hid (fun r => { r with timeouted := true })
  if r.depth > 0 then
    -- an ack-pending hold whose acknowledgements did not arrive in time
    let db1 := (db0.rollback hid).ctrMod (fun x => { x with timeoutedCount := x.timeoutedCount + 1 })
    db1.wake r.cmd.key [mkReply r.cmd R_TIMEOUT (db1.getKey r.cmd.key).locked 0 (db1.curData r.cmd.key)]
  else
    -- a queued request (or a record that is no hold any more: same path in the code); the request that left the queue may have been
    -- the one the others were waiting behind: wake pass after the reply
    let d := db.dropWaiter hid
    d.wake r.cmd.key [mkReply r.cmd R_TIMEOUT (d.getKey r.cmd.key).locked 0 (d.curData r.cmd.key)]

/-- `doExpried(lock)` -/
def fireExpire (db : DB) (hid : Nat) : DB × List Reply :=
  let r := db.getR hid
  if !db.leader && r.isAof && db.now - r.expT < WAIT_LEADER_MAX then
    -- a non-leader does not end a journalled hold on its own clock: re-armed 30 s ahead
    ((db.modR hid (fun r => { r with expT := db.now + 30 })).addExpried hid, [])
  else
    let db1 := (db.modR hid (fun r => { r with expried := true })).modKey r.cmd.key (fun k => { k with locked := k.locked - r.depth })
    let db2 := ((db1.journalUnlock hid false).removeLock hid).ctrMod
      (fun x => { x with lockedCount := x.lockedCount - r.depth, expriedCount := x.expriedCount + 1 })
    db2.wake r.cmd.key [mkReply r.cmd R_EXPRIED (db2.getKey r.cmd.key).locked 0 (db2.curData r.cmd.key)]

def slotT (db : DB) (c : Nat) (long : Bool) : List Rec :=
  sortBySeq (·.tsched.seq) (db.recs.filter (fun r => !r.timeouted && r.tsched.visit == c && r.tsched.long == long))
def slotE (db : DB) (c : Nat) (long : Bool) : List Rec :=
  sortBySeq (·.esched.seq) (db.recs.filter (fun r => !r.expried && r.esched.visit == c && r.esched.long == long))

def timeoutStep (acc : DB × List Nat) (r0 : Rec) : DB × List Nat :=
  let r := acc.1.getR r0.hid
  if r.timeoutT > acc.1.now then
    let a := wheelAdd acc.1.tCheck acc.1.seq r.timeoutT (r.tsched.checked + 1)
    ({ acc.1.modR r.hid (fun r => { r with timeoutT := a.1, tsched := a.2 }) with seq := acc.1.seq + 1 }, acc.2)
  else (acc.1, acc.2 ++ [r.hid])

def expireStep (acc : DB × List Nat) (r0 : Rec) : DB × List Nat :=
  let r := acc.1.getR r0.hid
  if r.expT > acc.1.now then
    let a := wheelAdd acc.1.eCheck acc.1.seq r.expT (r.esched.checked + 1)
    ({ acc.1.modR r.hid (fun r => { r with expT := a.1, esched := a.2 }) with seq := acc.1.seq + 1 }, acc.2)
  else (acc.1, acc.2 ++ [r.hid])

def fireTimeoutStep (acc : DB × List Reply) (hid : Nat) : DB × List Reply :=
  if (acc.1.getR hid).timeouted then acc
  else let r := fireTimeout acc.1 hid; (r.1, acc.2 ++ r.2)

def fireExpireStep (acc : DB × List Reply) (hid : Nat) : DB × List Reply :=
  if (acc.1.getR hid).expried then acc
  else let r := fireExpire acc.1 hid; (r.1, acc.2 ++ r.2)

def sweepTimeout (db : DB) (c : Nat) : DB × List Reply :=
  let p := (slotT db c false).foldl timeoutStep (db, [])
  (p.2 ++ (slotT db c true).map (·.hid)).foldl fireTimeoutStep (p.1, [])

def sweepExpire (db : DB) (c : Nat) : DB × List Reply :=
  let p := (slotE db c false).foldl expireStep (db, [])
  (p.2 ++ (slotE db c true).map (·.hid)).foldl fireExpireStep (p.1, [])

def opTick (db : DB) : DB × List Reply :=
  let now := db.now + 1
  let r1 := sweepTimeout { db with now := now, tCheck := now + 1 } now
  let r2 := sweepExpire { r1.1 with eCheck := now + 1 } now
  (r2.1, r1.2 ++ r2.2)

/-! ### the leader's ack table -/

def DB.findReq (db : DB) (req : Nat) : Option Ent := db.tab.find? (·.req == req)
def DB.findId (db : DB) (id : Nat) : Option Ent := db.tab.find? (·.id == id)
def DB.dropEnt (db : DB) (id : Nat) : DB := { db with tab := db.tab.filter (·.id != id) }

/-- `ProcessLeaderPushLock` -/
def leaderPushLock (db : DB) (id hid : Nat) : DB × List Reply :=
  if !db.leader then ackDone db hid false
  else if (db.findReq (db.getR hid).cmd.req).isSome || (db.getR hid).depth == 0 then ackDone db hid false   -- already pending under that RequestId, or no longer held
  else
    let e : Ent := { id := id, req := (db.getR hid).cmd.req, hid := hid }
    ({ db.modR hid (fun r => { r with ack := reqAcks db.cfg }) with tab := db.tab ++ [e] }, [])

/-- `ProcessLeaderPushUnLock` -/
def leaderPushUnLock (db : DB) (hid : Nat) : DB × List Reply :=
  match db.findReq (db.getR hid).cmd.req with
  | some e => ackDone (db.dropEnt e.id) hid false
  | none => (db, [])

/-- `ReplicationManager.PushLock` for the oldest undelivered record of key `k` (`werr`: the file write failed afterwards) -/
def opPush (db : DB) (k : Nat) (werr : Bool) : DB × List Reply :=
  match db.journal.find? (·.key == k) with
  | none => (db, [])
  | some j =>
    let db1 := { db with journal := db.journal.eraseP (·.key == k), nextId := db.nextId + 1 }
    match j.hid with
    | none => (db1, [])
    | some hid =>
      -- the gate of `ReplicationManager.PushLock`: require-ack record, node is leader, lock pointer present
      let r1 := if db1.leader then (if j.isLock then leaderPushLock db1 db1.nextId hid else leaderPushUnLock db1 hid) else (db1, [])
      -- `AofChannel.HandleLock` on a write error (LOCK records only, no role check)
      if werr && j.isLock then let r2 := ackDone r1.1 hid false; (r2.1, r1.2 ++ r2.2) else r1

def decU8 (n : Nat) : Nat := if n = 0 then 255 else n - 1

/-- history variables of the entry the report was looked up under (the first one with that id) -/
def noteOk (id : Nat) (who : Option Nat) : List Ent → List Ent
  | [] => []
  | x :: xs =>
    if x.id == id then { x with oks := x.oks ++ [who] } :: xs
    else x :: noteOk id who xs

/-- `ProcessLeaderAofed` / `ProcessLeaderAcked` (the same code twice); `who` = `none`: the leader's own flush, `some f`: follower f -/
def opReport (db : DB) (id : Nat) (who : Option Nat) (ok : Bool) : DB × List Reply :=
  match db.findId id with
  | none => (db, [])
  | some e =>
    let r := db.getR e.hid
    if !ok || !r.pending then ackDone (db.dropEnt id) e.hid false
    else
      let db1 := db.modR e.hid (fun r => { r with ack := decU8 r.ack })
      if decU8 r.ack > 0 then ({ db1 with tab := noteOk id who db1.tab }, [])
      else ackDone (db1.dropEnt id) e.hid true

def opAofed (db : DB) (id : Nat) (ok : Bool) : DB × List Reply := if db.leader then opReport db id none ok else (db, [])
def opAcked (db : DB) (id f : Nat) (ok : Bool) : DB × List Reply := opReport db id (some f) ok

def failStep (acc : DB × List Reply) (hid : Nat) : DB × List Reply :=
  let r := ackDone acc.1 hid false; (r.1, acc.2 ++ r.2)

/-- `SwitchToFollower` / `FlushDB`: every registered lock is failed (entries named in `order` first), then the tables are emptied -/
def opFailAll (db : DB) (order : List Nat) : DB × List Reply :=
  let first := order.filterMap (fun id => (db.findId id).map (·.hid))
  let rest := (db.tab.filter (fun e => !order.contains e.id)).map (·.hid)
  let r := (first ++ rest).foldl failStep (db, [])
  ({ r.1 with tab := [] }, r.2)

/-! ### events -/

inductive Ev
  | lock (c : Cmd) | unlock (c : Cmd) | tick
  | push (k : Nat) | pushW (k : Nat)
  | aofed (id : Nat) (ok : Bool) | acked (id f : Nat) (ok : Bool)
  | role (leader : Bool) | closed (b : Bool)
  | demote (order : List Nat) | flush (order : List Nat)
  deriving Repr, DecidableEq

def step (db : DB) : Ev → DB × List Reply
  | .lock c => opLock db c
  | .unlock c => opUnlock db c
  | .tick => opTick db
  | .push k => opPush db k false
  | .pushW k => opPush db k true
  | .aofed id ok => opAofed db id ok
  | .acked id f ok => opAcked db id f ok
  | .role b => ({ db with leader := b }, [])
  | .closed b => ({ db with closed := b }, [])
  | .demote o => opFailAll db o
  | .flush o => opFailAll db o

/-- run with the per-event outputs -/
def runOut (db : DB) : List Ev → DB × List (List Reply)
  | [] => (db, [])
  | e :: es => let s := step db e; let r := runOut s.1 es; (r.1, s.2 :: r.2)

def run (db : DB) (evs : List Ev) : DB := evs.foldl (fun d e => (step d e).1) db

/-- is a command inside the subset the correspondence is claimed for -/
def Cmd.lockOk (c : Cmd) : Bool :=
  (c.flag == 0 || c.flag == F_DATA) && (c.tflag == 0 || c.tflag == TF_ACK) && decide (0 < c.expried) && decide (c.expried < 190) &&
    decide (c.timeout < 65536) && decide (c.count < 65536) && decide (c.rcount < 256) &&
    (match c.data with | some f => frameOk f && c.flag == F_DATA | none => c.flag == 0)
def Cmd.unlockOk (c : Cmd) : Bool :=
  (c.flag == 0 || c.flag == UF_FIRST) && c.tflag == 0 && c.data.isNone && decide (c.rcount < 256)

end Slock.Ack
