import Slock.Gen.ClientParams
import Slock.Model.Engine
/-!
M-CLIENT: how the Go client turns a primitive's parameter tuple into the LOCK / UNLOCK command the engine sees.
Everything is driven by the REGENERATED tables of `Slock.Gen.Client` (client/*.go): a `Tuple` says how the primitive fills the
seven fields of the one underlying `client.Lock` object; a `Method` says which of those fields `Lock.<Method>` hands to
`doLock` / `doUnlock` and with which flag; `doLock_wire` (checked in C19.lean) says that the 32-bit timeout / expried words
go on the wire as (high 16 bits = flag field, low 16 bits = value). Core Lean only.

What is NOT here (runtime behaviour, exercised by the process-level run of C19 only): request ids and the matching of
replies to requests, pipelining, reconnects, TCP.
-/
namespace Slock.Client
open Slock.Engine Slock.Gen.Client

/-- the values a primitive instance / a call supplies -/
structure Env where
  /-- `self.<name>` (timeout / expried are the 32-bit words, flags in the high half) -/
  field : String → Nat
  /-- function parameters -/
  param : String → Nat
  /-- what `db.GenLockId()` returns for this call -/
  fresh : Nat
  /-- truth of a guarding condition, by its source text -/
  cond : String → Bool

def eval (e : Env) : Src → Nat
  | .const v => v
  | .fresh => e.fresh
  | .zero => 0
  | .field n => e.field n
  | .param n => e.param n
  | .or b bits => eval e b ||| bits
  | .condOr b bits c => if e.cond c then eval e b ||| bits else eval e b

/-- the client-side `Lock{db, lockId, lockKey, timeout, expried, count, rcount}` object -/
structure LockObj where
  lockId : Nat
  key : Nat
  timeoutW : Nat
  expriedW : Nat
  count : Nat
  rcount : Nat
  deriving Repr, DecidableEq

def obj (t : Tuple) (e : Env) : LockObj :=
  { lockId := eval e t.lockId, key := eval e t.key, timeoutW := eval e t.timeout, expriedW := eval e t.expried,
    count := eval e t.count, rcount := eval e t.rcount }

/-- a `Lock` method reads the object's own fields; its only parameter of interest is `flag` -/
def LockObj.env (o : LockObj) (flagParam : Nat) : Env :=
  { field := fun n =>
      if n = "lockId" then o.lockId else if n = "lockKey" then o.key else if n = "timeout" then o.timeoutW
      else if n = "expried" then o.expriedW else if n = "count" then o.count else if n = "rcount" then o.rcount else 0
    param := fun _ => flagParam
    fresh := 0
    cond := fun _ => false }

/-- the command `Lock.<m>` sends for the object `o` (`doLock_wire` / `doUnlock_wire`) -/
def cmdOf (m : Method) (o : LockObj) (req conn : Nat) (flagParam : Nat := 0) : Cmd :=
  let e := o.env flagParam
  { req := req, conn := conn, flag := eval e m.flag, lockId := eval e m.lockId, key := o.key,
    tflag := (eval e m.timeout >>> 16) % 65536, timeout := eval e m.timeout % 65536,
    eflag := (eval e m.expried >>> 16) % 65536, expried := eval e m.expried % 65536,
    count := eval e m.count, rcount := eval e m.rcount }

end Slock.Client
