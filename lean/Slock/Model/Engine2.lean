import Slock.Model.Engine
import Slock.Model.Value
/-
M-ENGINE (stage 2): the lock engine of server/db.go + server/lock.go at the level of lock RECORDS.

What stage 1 (Model/Engine.lean) leaves out and this file carries:
* every `Lock` object (`Rec`) with its two tombstones (`timeouted`, `expried`), `isAof`, `aofTime`, its reference count and
  its wheel memberships (a tombstoned record STAYS in its slot until the sweeper pops it; a long-table entry is removed at
  once with `refCount--`);
* every `LockManager` (`Key`): `locked`, `currentLock`, the holder queue `locks` and the wait queue WITH their tombstoned
  entries in order, the inline-array bookkeeping that decides when `Push` compacts (len = popped + entries, cap), the
  switch of the wait queue to priority mode, `waited`, the value cell, `refCount`;
* the database: which key records exist (`GetOrNewLockManager` … `RemoveLockManager`), `KeyCount`, the journal `aofOut` (what
  `PushLockAof` / `PushUnLockAof` hand to the AOF channel), leader flag with the follower-side expiry deferral.
The code's own increments and decrements on the reference counts are carried verbatim (uint8 / uint32 wrap included), so the theorems in
Proofs/Engine2*.lean are about them.

One call of `opLock` / `opUnlock` / `opTick` = the sequential composition of critical sections the E-seq harness executes.
An operation works on ONE key record, held in `W` together with the database (`W.commit` stores it back unless
`RemoveLockManager` ran). Value frames go through `Slock.Value.processFrame` with the `Ctx` the call site has.

Out of subset (never generated): require-ack, millisecond timers, less-lock-version, unlock-to-wait, tree locks, reverse-key,
EXECUTE frames, keep-alive, subscribe; more than 128 queued entries in one inline queue (ring / scale queue representation).
Core Lean only: the driver links this file.
-/
namespace Slock.Engine2
open Slock.Engine (has F_SHOW F_UPDATE F_FROM_AOF F_CONCURRENT UF_FIRST UF_CANCEL TF_PRIORITY TF_MINUTE TF_WAIT_UNLOCK TF_NO_RESET
  EF_MINUTE EF_ZERO_AOF EF_NO_RESET EF_UNLIMITED INF_TIME MAX_WAIT
  RESULT_SUCCED RESULT_LOCKED_ERROR RESULT_UNLOCK_ERROR RESULT_UNOWN_ERROR RESULT_TIMEOUT RESULT_EXPRIED RESULT_STATE_ERROR
  wheelAdd timeoutDeadline expiryDeadline initChecked cmdPriority absDiff insertBySeq sortBySeq)

abbrev Bytes := Slock.Value.Bytes
abbrev Cmd := Slock.Engine.Cmd
abbrev Sched := Slock.Engine.Sched
abbrev Counters := Slock.Engine.Counters

def F_DATA := 0x20
def EF_UNLIMITED_AOF := 0x200
def EF_PARCENT_AOF := 0x1000
def AOF_TIMEOUTED := 0x2
def AOF_EXPRIED := 0x4
def AOF_UPDATED := 0x8
def AOF_PRIORITY := 0x10
def AOF_DATA := 0x2000
def CT_LOCK := 1
def CT_UNLOCK := 2
def WAIT_LEADER_MAX := 300

/-- `uint8` / `uint32` decrement as the code performs it (`refCount--`, `atomic.AddUint32(&x, 0xffffffff)`) -/
def decU8 (n : Nat) : Nat := if n = 0 then 255 else n - 1
def decU32 (n : Nat) : Nat := if n = 0 then 0xffffffff else n - 1

/-- one `Lock` object -/
structure Rec where
  rid : Nat                      -- identity of the object
  hid : Nat := 0                 -- stage-1 identity of the hold (the wheel sequence number of its grant)
  cmd : Cmd                      -- `lock.command`
  data : Option Bytes := none    -- `lock.command.Data`: the value frame still to be processed (queued request)
  conn : Nat                     -- `lock.protocol`
  depth : Nat := 0               -- `lock.locked`
  startT : Nat
  expT : Nat := 0
  timeoutT : Nat
  timeouted : Bool := true
  expried : Bool := true
  isAof : Bool := false
  aofTime : Nat := 0
  refCount : Nat := 0
  tChecked : Nat := 1
  eChecked : Nat := 1
  tSched : Option Sched := none  -- entry in the timeout wheel (slot or long table)
  eSched : Option Sched := none  -- entry in the expiry wheel
  aofData : Bool := false        -- `lock.data != nil && lock.data.aofData != nil` (a PIPELINE frame kept for the journal)
  deriving Repr, DecidableEq, Inhabited

/-- wait-queue entry: the record and the priority class it was filed under -/
structure WEnt where
  rid : Nat
  prio : Nat
  deriving Repr, DecidableEq, Inhabited

/-- one `LockManager` -/
structure Key where
  key : Nat
  locked : Nat := 0
  waited : Bool := false
  refCount : Nat := 0
  cell : Option Slock.Value.Cell := none
  recs : List Rec := []          -- the un-freed lock records of this manager
  current : Option Nat := none   -- `currentLock`
  locks : List Nat := []         -- holder queue from `fastIndex` on, tombstones included
  locksPopped : Nat := 0         -- `locks.fastIndex`
  locksCap : Nat := 6
  wait : List WEnt := []         -- wait queue in pop order, tombstones included
  waitPopped : Nat := 0
  waitCap : Nat := 8
  waitPrio : Bool := false       -- priority-ring mode (`fastIndex = -1`)
  deriving Repr, DecidableEq, Inhabited

/-- what `AofChannel.Push` is handed -/
structure JournalRec where
  ctype : Nat
  key : Nat
  lockId : Nat
  flag : Nat
  hasData : Bool
  deriving Repr, DecidableEq, Inhabited

structure Reply where
  r : Slock.Engine.Reply
  data : Option Bytes
  deriving Repr, DecidableEq, Inhabited

structure DB where
  keys : List Key := []
  now : Nat
  tCheck : Nat
  eCheck : Nat
  seq : Nat := 0
  nextRid : Nat := 0
  leader : Bool := true
  ctr : Counters := {}
  keyCount : Nat := 0
  aofTime : Nat := 0xff          -- `db.aofTime`
  aofOut : List JournalRec := []
  panicked : Bool := false       -- a value operation panicked (proved unreachable for sane cells, C13)
  deriving Repr, DecidableEq, Inhabited

def DB.init (now aofTime : Nat) : DB := { now := now, tCheck := now + 1, eCheck := now + 1, aofTime := aofTime }

def newKey (k : Nat) : Key := { key := k }

def DB.findKey (db : DB) (k : Nat) : Option Key := db.keys.find? (·.key == k)
def DB.hasKey (db : DB) (k : Nat) : Bool := (db.findKey k).isSome
def DB.getKey (db : DB) (k : Nat) : Key := (db.findKey k).getD (newKey k)

/-- `GetOrNewLockManager`: a fresh manager, `KeyCount++` -/
def DB.create (db : DB) (k : Nat) : DB :=
  if db.hasKey k then db else { db with keys := db.keys ++ [newKey k], keyCount := db.keyCount + 1 }

def DB.setKey (db : DB) (k : Key) : DB :=
  if db.hasKey k.key then { db with keys := db.keys.map (fun x => if x.key == k.key then k else x) }
  else { db with keys := db.keys ++ [k] }

/-- the unlinking part of `RemoveLockManager` -/
def DB.dropKey (db : DB) (k : Nat) : DB :=
  { db with keys := db.keys.filter (·.key != k), keyCount := decU32 db.keyCount }

/-! ### records of one manager -/

def deadRec (rid : Nat) : Rec :=
  { rid := rid, cmd := default, conn := 0, startT := 0, timeoutT := 0 }

def Key.getR (k : Key) (rid : Nat) : Rec := (k.recs.find? (·.rid == rid)).getD (deadRec rid)

def Key.modRec (k : Key) (rid : Nat) (f : Rec → Rec) : Key :=
  { k with recs := k.recs.map (fun x => if x.rid == rid then f x else x) }

def Key.setRec (k : Key) (r : Rec) : Key := k.modRec r.rid (fun _ => r)

/-- `FreeLock` (`lock.manager == nil` ⇒ nothing) -/
def Key.free (k : Key) (rid : Nat) : Key :=
  if k.recs.any (·.rid == rid) then { k with recs := k.recs.filter (·.rid != rid), refCount := decU32 k.refCount } else k

/-- `lock.refCount--` -/
def Key.unrefOnly (k : Key) (rid : Nat) : Key := k.modRec rid (fun r => { r with refCount := decU8 r.refCount })

/-- `lock.refCount--; if lock.refCount == 0 { FreeLock(lock) }` -/
def Key.unref (k : Key) (rid : Nat) : Key :=
  let k1 := k.unrefOnly rid
  if (k1.getR rid).refCount == 0 then k1.free rid else k1

def Key.liveHolder (k : Key) (rid : Nat) : Bool := (k.getR rid).depth > 0
def Key.deadWaiter (k : Key) (rid : Nat) : Bool := (k.getR rid).timeouted

/-- live holders in order: `currentLock`, then the queue -/
def Key.holders (k : Key) : List Rec :=
  ((k.current.toList ++ k.locks).map k.getR).filter (·.depth > 0)

/-- live queued requests in the order `GetWaitLock` returns them -/
def Key.waiters (k : Key) : List Rec := ((k.wait.map (fun e => k.getR e.rid))).filter (fun r => !r.timeouted)

/-! ### the holder queue (`LockManagerLockQueue`, inline array part) -/

/-- `locks.Push(lock)` -/
def Key.locksPush (k : Key) (rid : Nat) : Key :=
  let len := k.locksPopped + k.locks.length
  if len < k.locksCap then { k with locks := k.locks ++ [rid] }
  else if k.locks.isEmpty then { k with locks := [rid], locksPopped := 0 }
  else
    -- compaction: tombstoned entries are dropped (`refCount--`, freed at 0), live ones move to the front
    let dead := k.locks.filter (fun x => !k.liveHolder x)
    let kept := k.locks.filter (fun x => k.liveHolder x)
    let k1 : Key := if kept.length < len then { k with locks := kept ++ [rid], locksPopped := 0 }
                    else { k with locks := kept ++ [rid], locksCap := 2 * k.locksCap }
    dead.foldl (fun k x => k.unref x) k1

/-- pop tombstoned heads (`refCount--`, freed at 0) up to the first live entry; `take` = that entry is popped too and returned.
Called with the queue itself as the list argument. -/
def locksSkip (take : Bool) : List Nat → Key → Key × Option Nat
  | [], k => (k, none)
  | x :: rest, k =>
    if k.liveHolder x then
      (if take then ({ k with locks := rest, locksPopped := k.locksPopped + 1 }, some x) else (k, some x))
    else locksSkip take rest ({ k with locks := rest, locksPopped := k.locksPopped + 1 }.unref x)

/-- `LockManager.RemoveLock` -/
def Key.removeLock (k : Key) (rid : Nat) : Key :=
  let k1 := k.modRec rid (fun r => { r with depth := 0 })
  if k1.current == some rid then
    let k2 := { k1.unrefOnly rid with current := none }
    let r := locksSkip true k2.locks k2
    { r.1 with current := r.2 }
  else (locksSkip false k1.locks k1).1

/-! ### the wait queue (`LockManagerWaitQueue`: inline array → priority ring) -/

def insertPrio (ws : List WEnt) (e : WEnt) : List WEnt :=
  match ws with
  | [] => [e]
  | x :: xs => if e.prio > x.prio then e :: x :: xs else x :: insertPrio xs e

/-- `RePushPriorityRingQueue`: every entry is re-filed under the priority its record's command has NOW -/
def Key.rePush (k : Key) : Key :=
  { k with wait := (k.wait.map (fun e => { e with prio := cmdPriority (k.getR e.rid).cmd })).foldl insertPrio [],
           waitPrio := true, waitPopped := 0 }

/-- `waitLocks.Push(lock)` -/
def Key.waitPush (k : Key) (e : WEnt) : Key :=
  if k.waitPrio then { k with wait := insertPrio k.wait e }
  else
    let len := k.waitPopped + k.wait.length
    if len < k.waitCap then { k with wait := k.wait ++ [e] }
    else if k.wait.isEmpty then { k with wait := [e], waitPopped := 0 }
    else
      let dead := k.wait.filter (fun x => k.deadWaiter x.rid)
      let kept := k.wait.filter (fun x => !k.deadWaiter x.rid)
      let k1 : Key := if kept.length < len then { k with wait := kept ++ [e], waitPopped := 0 }
                      else { k with wait := kept ++ [e], waitCap := 2 * k.waitCap }
      dead.foldl (fun k x => k.unref x.rid) k1

/-- `AddWaitLock` -/
def Key.addWaitLock (k : Key) (rid : Nat) : Key :=
  let p := cmdPriority (k.getR rid).cmd
  let k1 :=
    if k.waited && !k.waitPrio then
      match k.wait.head? with
      | some e => if p != cmdPriority (k.getR e.rid).cmd then k.rePush else k
      | none => k
    else k
  let k2 := k1.waitPush ⟨rid, p⟩
  { k2.modRec rid (fun r => { r with refCount := r.refCount + 1 }) with waited := true }

/-- `GetWaitLock`: tombstoned heads are popped (`refCount--`, freed at 0). Called with the queue itself as the list argument. -/
def waitSkip : List WEnt → Key → Key × Option Nat
  | [], k => (k, none)
  | e :: rest, k =>
    if k.deadWaiter e.rid then
      waitSkip rest ({ k with wait := rest, waitPopped := if k.waitPrio then k.waitPopped else k.waitPopped + 1 }.unref e.rid)
    else (k, some e.rid)

def Key.getWaitLock (k : Key) : Key × Option Nat := waitSkip k.wait k

/-! ### admission (as stage 1, on records) -/

def Key.cur (k : Key) : Option Rec := k.current.map k.getR

def doLock (k : Key) (c : Cmd) : Bool :=
  if k.locked == 0 then true
  else if c.count == 0 then false
  else
    match k.cur with
    | none => false     -- the Go code would dereference nil; unreachable (locked > 0 ⇒ a current lock exists)
    | some cur =>
      if k.locked ≥ 0xffff then
        if k.locked ≥ 0x7fffffff then false
        else cur.cmd.count == 0xffff && c.count == 0xffff
      else k.locked ≤ cur.cmd.count && k.locked ≤ c.count

/-- `doCheckLockWaitPriority` (raw head of the queue, tombstoned or not; an absent queue counts as empty) -/
def checkWaitPriority (k : Key) (c : Cmd) : Bool :=
  match k.wait.head? with
  | none => c.rcount > 0
  | some e => c.rcount > (if k.waitPrio then e.prio else cmdPriority (k.getR e.rid).cmd)

/-- `GetLockedLock`: `currentLock` if its LockId matches, else the first live queue entry with that LockId -/
def findHolder (k : Key) (lockId : Nat) : Option Nat :=
  (k.current.toList ++ k.locks).find? (fun x => k.liveHolder x && (k.getR x).cmd.lockId == lockId)

def Rec.toHold (r : Rec) : Slock.Engine.Hold :=
  { hid := r.hid, cmd := r.cmd, conn := r.conn, depth := r.depth, startT := r.startT, expT := r.expT, sched := r.eSched.getD default }

def Rec.toWaiter (r : Rec) : Slock.Engine.Waiter :=
  { cmd := r.cmd, conn := r.conn, timeoutT := r.timeoutT, sched := r.tSched.getD default }

/-! ### an operation in progress on one key record -/

structure W where
  db : DB
  k : Key
  gone : Bool := false          -- `RemoveLockManager` ran: the record is no longer reachable from the database
  out : List Reply := []
  deriving Repr

def DB.openKey (db : DB) (key : Nat) : W := { db := db, k := db.getKey key, gone := !db.hasKey key }

def W.commit (w : W) : DB := if w.gone then w.db else w.db.setKey w.k

/-- edit the key record -/
def W.modK (w : W) (f : Key → Key) : W := { w with k := f w.k }
/-- edit one lock record -/
def W.modR (w : W) (rid : Nat) (f : Rec → Rec) : W := { w with k := w.k.modRec rid f }
/-- a conditional step -/
def W.when (w : W) (b : Bool) (f : W → W) : W := if b then f w else w

/-- `if lockManager.refCount == 0 { RemoveLockManager(lockManager) }`; a recycled manager loses its cell and queues -/
def W.removeIfZero (w : W) : W :=
  if !w.gone && w.k.refCount == 0 then
    { w with db := w.db.dropKey w.k.key, gone := true,
             k := { w.k with cell := none, locks := [], locksPopped := 0, locksCap := 6, wait := [], waitPopped := 0, waitCap := 8,
                             waitPrio := false, refCount := 0xffffffff } }
  else w

def W.reply (w : W) (c : Cmd) (result lrcount : Nat) (data : Option Bytes) : W :=
  { w with out := w.out ++ [{ r := Slock.Engine.mkReply c result w.k.locked lrcount, data := data }] }

def W.lockData (w : W) : Option Bytes := Slock.Value.getLockData w.k.cell

def W.ctr (w : W) (f : Counters → Counters) : W := { w with db := { w.db with ctr := f w.db.ctr } }

/-- `FreeLock(lock); if manager.refCount == 0 { RemoveLockManager }` -/
def W.freeCheck (w : W) (rid : Nat) : W := (w.modK (·.free rid)).removeIfZero

/-- `lock.refCount--; if lock.refCount == 0 { FreeLock; if manager.refCount == 0 { RemoveLockManager } }` -/
def W.unrefCheck (w : W) (rid : Nat) : W :=
  let w1 := w.modK (·.unrefOnly rid)
  w1.when ((w1.k.getR rid).refCount == 0) (·.freeCheck rid)

/-! ### value frames -/

def updOrZero (c : Cmd) : Bool := has c.flag F_UPDATE || (c.eflag &&& 0x4440 == 0 && c.expried == 0)

def frameCtx (k : Key) (ct : Slock.Value.CmdType) (c : Cmd) : Slock.Value.Ctx :=
  ⟨k.locked, k.waited, ct, updOrZero c, has c.flag F_FROM_AOF, false⟩

/-- does `ProcessLockData` reach the PIPELINE case with this frame (then the frame is kept in `lock.data.aofData`) -/
def isPipeline (cx : Slock.Value.Ctx) (f : Bytes) : Bool :=
  match Slock.Value.parseFrame f [] with
  | some d => Slock.Value.gate cx d && d.ctype == Slock.Value.PIPELINE
  | none => false

/-- the frame a command carries: only looked at when the contains-data flag is set -/
def frameOf (c : Cmd) (data : Option Bytes) : Option Bytes := if has c.flag F_DATA then data else none

/-- `ProcessLockData(command, lock, false)` -/
def W.procData (w : W) (ct : Slock.Value.CmdType) (c : Cmd) (frame : Option Bytes) (rid : Nat) : W :=
  match frame with
  | none => w
  | some f =>
    let cx := frameCtx w.k ct c
    match Slock.Value.processFrame cx w.k.cell f with
    | .error _ => { w with db := { w.db with panicked := true } }
    | .ok cell' =>
      let k1 := { w.k with cell := cell' }
      { w with k := if isPipeline cx f then k1.modRec rid (fun r => { r with aofData := true }) else k1 }

/-! ### journalling -/

/-- `AofLockData` -/
def aofLockData (k : Key) (isLock : Bool) (rid : Nat) : Key × Bool :=
  if (k.getR rid).aofData then (k.modRec rid (fun r => { r with aofData := false }), true)
  else
    match k.cell with
    | some c => if isLock || !c.isAof then ({ k with cell := some { c with isAof := true } }, true) else (k, false)
    | none => (k, false)

def journalFlag (flag : Nat) (c : Cmd) (blob : Bool) : Nat :=
  flag ||| (if has c.tflag TF_PRIORITY then AOF_PRIORITY else 0) ||| (if blob then AOF_DATA else 0)

/-- `PushLockAof(lock, aofFlag)` -/
def W.pushLockAof (w : W) (rid : Nat) (flag : Nat) : W :=
  if !w.db.leader then w
  else
    let r := w.k.getR rid
    if has r.cmd.flag F_FROM_AOF then { w with k := w.k.modRec rid (fun r => { r with isAof := true }) }
    else
      let a := aofLockData w.k true rid
      let jr : JournalRec := { ctype := CT_LOCK, key := w.k.key, lockId := r.cmd.lockId, flag := journalFlag flag r.cmd a.2, hasData := a.2 }
      { w with db := { w.db with aofOut := w.db.aofOut ++ [jr] }, k := a.1.modRec rid (fun r => { r with isAof := true }) }

def W.pushLockAofN : Nat → W → Nat → W
  | 0, w, _ => w
  | n + 1, w, rid => W.pushLockAofN n (w.pushLockAof rid 0) rid

/-- `PushUnLockAof(dbId, lock, lockCommand, unLockCommand, isAof, aofFlag)` -/
def W.pushUnLockAof (w : W) (rid : Nat) (lockCmd : Cmd) (unlockFromAof : Bool) (isAof : Bool) (flag : Nat) : W :=
  if !w.db.leader then w
  else if unlockFromAof then { w with k := w.k.modRec rid (fun r => { r with isAof := isAof }) }
  else
    let a := aofLockData w.k false rid
    let jr : JournalRec := { ctype := CT_UNLOCK, key := w.k.key, lockId := lockCmd.lockId, flag := journalFlag flag lockCmd a.2, hasData := a.2 }
    { w with db := { w.db with aofOut := w.db.aofOut ++ [jr] }, k := a.1.modRec rid (fun r => { r with isAof := isAof }) }

/-- `if lock.isAof { PushLockAof(lock, flag) }` -/
def W.journalLock (w : W) (rid flag : Nat) : W := w.when (w.k.getR rid).isAof (·.pushLockAof rid flag)
/-- `if lock.isAof { PushUnLockAof(…, lock.command, unLockCommand, isAof, flag) }` -/
def W.journalUnlock (w : W) (rid : Nat) (unlockFromAof isAof : Bool) (flag : Nat) : W :=
  w.when (w.k.getR rid).isAof (·.pushUnLockAof rid (w.k.getR rid).cmd unlockFromAof isAof flag)

/-! ### wheels -/

def aofTimeOf (db : DB) (c : Cmd) : Nat :=
  if c.eflag &&& 0x1300 == EF_ZERO_AOF then 0
  else if c.eflag &&& 0x1300 == EF_UNLIMITED_AOF then 0xff
  else if c.eflag &&& 0x1300 == EF_PARCENT_AOF then (c.expried * 3 / 10) % 256
  else db.aofTime

/-- the record gets a (new) entry in the timeout wheel / the expiry wheel -/
def Rec.armT (a : Nat × Sched) (r : Rec) : Rec := { r with timeouted := false, timeoutT := a.1, tSched := some a.2 }
def Rec.armE (a : Nat × Sched) (r : Rec) : Rec := { r with expried := false, expT := a.1, eSched := some a.2 }

/-- `AddTimeOut(lock)` -/
def W.addTimeOut (w : W) (rid : Nat) : W :=
  let r := w.k.getR rid
  { w with db := { w.db with seq := w.db.seq + 1 },
           k := w.k.modRec rid (Rec.armT (wheelAdd w.db.tCheck w.db.seq r.timeoutT r.tChecked)) }

/-- the scheduling half of `AddExpried(lock)` -/
def W.schedExpried (w : W) (rid : Nat) : W :=
  let r := w.k.getR rid
  { w with db := { w.db with seq := w.db.seq + 1 },
           k := w.k.modRec rid (Rec.armE (wheelAdd w.db.eCheck w.db.seq r.expT r.eChecked)) }

/-- `AddExpried(lock)`: schedule, and journal the hold (once per depth level) when it is old enough -/
def W.addExpried (w : W) (rid : Nat) : W :=
  let r := w.k.getR rid
  (w.schedExpried rid).when (!r.isAof && r.aofTime != 0xff && w.db.now - r.startT ≥ r.aofTime) (W.pushLockAofN r.depth · rid)

/-- `RemoveLongTimeOut` / `RemoveLongExpried`: the long-table entry goes at once, `refCount--` -/
def W.removeLongT (w : W) (rid : Nat) : W := w.modK (fun k => (k.modRec rid (fun r => { r with tSched := none })).unrefOnly rid)
def W.removeLongE (w : W) (rid : Nat) : W := w.modK (fun k => (k.modRec rid (fun r => { r with eSched := none })).unrefOnly rid)

def Rec.tLong (r : Rec) : Bool := match r.tSched with | some s => s.long | none => false
def Rec.eLong (r : Rec) : Bool := match r.eSched with | some s => s.long | none => false

/-- `if lock.longWaitIndex > 0 { RemoveLongTimeOut(lock) }` -/
def W.dropLongT (w : W) (rid : Nat) : W := w.when (w.k.getR rid).tLong (·.removeLongT rid)
def W.dropLongE (w : W) (rid : Nat) : W := w.when (w.k.getR rid).eLong (·.removeLongE rid)

/-- `lock.refCount++` -/
def W.ref (w : W) (rid : Nat) : W := w.modR rid (fun r => { r with refCount := r.refCount + 1 })

/-! ### granting -/

/-- a `Lock` object as `GetOrNewLock` initialises it -/
def newRec (rid now : Nat) (c : Cmd) (data : Option Bytes) : Rec :=
  { rid := rid, cmd := c, data := data, conn := c.conn, startT := now, timeoutT := timeoutDeadline now c }

def Key.addRec (k : Key) (r : Rec) : Key := { k with recs := k.recs ++ [r], refCount := k.refCount + 1 }

/-- `GetOrNewLock` -/
def W.newLock (w : W) (c : Cmd) (data : Option Bytes) : W × Nat :=
  ({ w with db := { w.db with nextRid := w.db.nextRid + 1 }, k := w.k.addRec (newRec w.db.nextRid w.db.now c data) }, w.db.nextRid)

/-- what `AddLock` does to the record -/
def addLockF (db : DB) (k : Key) (r : Rec) : Rec :=
  let expT := expiryDeadline db.now r.cmd
  let aofTime := match k.cur with
    | none => aofTimeOf db r.cmd
    | some cur => cur.aofTime
  { r with hid := db.seq, startT := db.now, expT := expT, eChecked := initChecked r.cmd db.now expT, aofTime := aofTime,
           depth := 1, refCount := r.refCount + 1, isAof := r.isAof || has r.cmd.flag F_FROM_AOF }

/-- `AddLock(lock)` -/
def Key.addLock (k : Key) (rid : Nat) (f : Rec → Rec) : Key :=
  match k.current with
  | none => { k.modRec rid f with current := some rid }
  | some _ => (k.modRec rid f).locksPush rid

def W.addLock (w : W) (rid : Nat) : W := w.modK (·.addLock rid (addLockF w.db w.k))

def incLocked (k : Key) : Key := { k with locked := k.locked + 1 }

/-- the grant of `rid` with Expried > 0 (direct or from the queue): `AddLock`, `locked++`, value op, `AddExpried`, counters, reply -/
def W.grant (w : W) (rid : Nat) : W :=
  let w2 := (w.addLock rid).modK incLocked
  let r := w2.k.getR rid
  ((((((w2.procData .lock r.cmd (frameOf r.cmd r.data) rid).modR rid (fun r => { r with data := none })).addExpried rid).ref rid).ctr
      (fun c => { c with lockCount := c.lockCount + 1, lockedCount := c.lockedCount + 1 })).reply
      { r.cmd with conn := r.conn } RESULT_SUCCED 1 w2.lockData)

/-- is the key's data journalled (`isRequireAof` of the zero-expiry grant) -/
def requireAof (k : Key) : Bool :=
  (match k.cur with | some cur => cur.isAof | none => false) || (match k.cell with | some c => c.isAof | none => false)
def cellNotAof (k : Key) : Bool := match k.cell with | some c => !c.isAof | none => false

/-- the grant of a request with Expried = 0: value op (journalled if the key's data is), no hold -/
def W.grantNoHold (w : W) (rid : Nat) : W :=
  let r := w.k.getR rid
  let w1 := w.procData .lock r.cmd (frameOf r.cmd r.data) rid
  ((w1.when (has r.cmd.flag F_DATA && requireAof w.k && cellNotAof w1.k) (·.pushLockAof rid 0)).modR rid (fun r => { r with data := none }))

/-- what `UpdateLockedLock(lock, c)` does to the record (`sole`: it is the only holder and not journalled) -/
def updF (db : DB) (sole : Bool) (c : Cmd) (r : Rec) : Rec :=
  let r1 : Rec :=
    if has c.eflag EF_UNLIMITED && c.expried ≥ 0xffff then { r with cmd := c }
    else
      let expT := expiryDeadline db.now c
      { r with cmd := c, startT := db.now, timeoutT := timeoutDeadline db.now c, expT := expT,
               tChecked := if has c.tflag TF_NO_RESET then r.tChecked else 1,
               eChecked := if has c.eflag EF_NO_RESET then r.eChecked else initChecked c db.now expT }
  let r2 := if sole then { r1 with aofTime := aofTimeOf db c } else r1
  -- a slot entry stays where it is; its back-off counter is the record's
  { r2 with eSched := r2.eSched.map (fun s => { s with checked := r2.eChecked }) }

/-- `UpdateLockedLock` + the long-table move + `lock.protocol = …` for a re-lock or update of hold `rid` by `c` -/
def W.updateLocked (w : W) (rid : Nat) (c : Cmd) : W :=
  let r := w.k.getR rid
  let sole := !r.isAof && w.k.current == some rid && w.k.locks.isEmpty
  let r3 := updF w.db sole c r
  ((w.modR rid (updF w.db sole c)).when (r.eLong && r.expT != r3.expT) (fun w => ((w.removeLongE rid).addExpried rid).ref rid)).modR rid
    (fun r => { r with conn := c.conn })

/-- `CheckLockedEqual` -/
def checkLockedEqual (now : Nat) (r : Rec) (c : Cmd) : Bool := Slock.Engine.checkLockedEqual now r.toHold c

/-! ### wake pass -/

/-- `wakeUpWaitLock` -/
def W.wakeOne (w : W) (rid : Nat) : W :=
  let w2 := ((w.modR rid (fun r => { r with timeouted := true })).dropLongT rid).ctr (fun c => { c with waitCount := c.waitCount - 1 })
  let r := w2.k.getR rid
  if r.cmd.expried > 0 then w2.grant rid
  else
    (((w2.grantNoHold rid).ctr (fun c => { c with lockCount := c.lockCount + 1 })).reply { r.cmd with conn := r.conn } RESULT_SUCCED 0 w2.lockData)

def clearWaited (k : Key) : Key := { k with waited := false }

/-- `wakeUpWaitLocks`; fuel = number of queue entries + 1 (every iteration pops or grants one) -/
def W.wakePass : Nat → W → W
  | 0, w => w
  | fuel + 1, w =>
    let w1 := w.modK (·.getWaitLock.1)
    match w.k.getWaitLock.2 with
    | none => (w1.modK clearWaited).removeIfZero
    | some rid =>
      if !doLock w1.k (w1.k.getR rid).cmd then w1
      else W.wakePass fuel (w1.wakeOne rid)

def W.wake (w : W) : W := w.when w.k.waited (fun w => W.wakePass (w.k.wait.length + 1) w)

/-- `if GetWaitLock() == nil { waited = false }` -/
def Key.settleWait (k : Key) : Key := if k.getWaitLock.2.isNone then clearWaited k.getWaitLock.1 else k.getWaitLock.1

/-! ### LOCK -/

inductive LockBranch
  | p0a | p0b | stateError
  | show (cur : Nat)
  | updateEqual (h : Nat)          -- no value frame, same terms
  | updateEqualData (h : Nat)      -- value op applied, the key's data is journalled and no pipeline pending, same terms
  | update (h : Nat)
  | relockNoHold (h : Nat) | relock (h : Nat) | relockRefused (h : Nat)
  | unlockedWaitRefused
  | grant | grantNoHold | queue | timeout
  deriving Repr, DecidableEq

/-- the command as the show flag rewrites it -/
def showCmd (c : Cmd) (cur : Rec) : Cmd :=
  { c with lockId := cur.cmd.lockId, timeout := cur.cmd.timeout, tflag := cur.cmd.tflag,
           expried := cur.cmd.expried, eflag := cur.cmd.eflag, count := cur.cmd.count, rcount := cur.cmd.rcount }

/-- after the value operation of an update: `currentData != nil && currentData.isAof && (lock.data == nil || lock.data.aofData == nil)` -/
def dataSettled (k : Key) (rid : Nat) : Bool :=
  (match k.cell with | some c => c.isAof | none => false) && !(k.getR rid).aofData

def classifyLock (db : DB) (c : Cmd) (data : Option Bytes) : LockBranch :=
  let k := db.getKey c.key
  if has c.flag F_CONCURRENT && c.timeout == 0 && c.count < 0xffff && k.locked > c.count then .p0a
  else if has c.flag F_CONCURRENT && c.timeout == 0 && k.locked == 0 && has c.tflag TF_WAIT_UNLOCK then .p0b
  else if !db.leader && !has c.flag F_FROM_AOF then .stateError
  else
    let afterHeld (waited : Bool) : LockBranch :=
      if (!waited || (has c.tflag TF_PRIORITY && checkWaitPriority k c)) && doLock k c then
        (if c.expried > 0 then .grant else .grantNoHold)
      else if c.timeout > 0 then .queue else .timeout
    let upd (h : Nat) (c' : Cmd) : LockBranch :=
      if has c'.flag F_DATA then
        let w := ({ db := db, k := k } : W).procData .lock c' (frameOf c' data) h
        if dataSettled w.k h && checkLockedEqual db.now (k.getR h) c' then .updateEqualData h else .update h
      else if checkLockedEqual db.now (k.getR h) c' then .updateEqual h else .update h
    if k.locked > 0 then
      match (if has c.flag F_SHOW then k.current else none) with
      | some cur =>
        if !has c.flag F_UPDATE then .show cur
        else upd cur { c with lockId := (k.getR cur).cmd.lockId }
      | none =>
        match findHolder k c.lockId with
        | some h =>
          if has c.flag F_UPDATE then upd h c
          else if (k.getR h).depth < 0xff && (k.getR h).depth ≤ c.rcount && !has c.tflag TF_PRIORITY then
            (if c.expried == 0 then .relockNoHold h else .relock h)
          else .relockRefused h
        | none => afterHeld k.waited
    else if has c.tflag TF_WAIT_UNLOCK then
      if k.waited && c.count == 0 then .unlockedWaitRefused else afterHeld true
    else afterHeld false

/-- the LockId an update / show request ends up with -/
def lockCmdOf (k : Key) (c : Cmd) : LockBranch → Cmd
  | .show cur => showCmd c (k.getR cur)
  | .updateEqual h | .updateEqualData h | .update h => { c with lockId := (k.getR h).cmd.lockId }
  | _ => c

/-- the record after `GetOrNewLockManager` + taking the shard mutex -/
def DB.enter (db : DB) (key : Nat) : W := (db.create key).openKey key

def applyLock (db : DB) (c : Cmd) (data : Option Bytes) (b : LockBranch) : W :=
  match b with
  | .p0a => let w := db.openKey c.key; w.reply c RESULT_TIMEOUT 0 w.lockData
  | .p0b => { db.openKey c.key with out := [{ r := Slock.Engine.mkReply c RESULT_TIMEOUT 0 0, data := none }] }
  | .stateError =>
    let w := (db.enter c.key).removeIfZero
    w.reply c RESULT_STATE_ERROR 0 w.lockData
  | .show cur =>
    let w := db.enter c.key
    w.reply (showCmd c (w.k.getR cur)) RESULT_UNOWN_ERROR (w.k.getR cur).depth w.lockData
  | .updateEqual h =>
    let w := db.enter c.key
    w.reply (lockCmdOf w.k c b) RESULT_LOCKED_ERROR (w.k.getR h).depth w.lockData
  | .updateEqualData h =>
    let w := db.enter c.key
    let c' := lockCmdOf w.k c b
    (w.procData .lock c' (frameOf c' data) h).reply c' RESULT_LOCKED_ERROR (w.k.getR h).depth w.lockData
  | .update h =>
    let w := db.enter c.key
    let c' := lockCmdOf w.k c b
    let w3 := (((w.procData .lock c' (frameOf c' data) h).updateLocked h c').when (!has c'.flag F_FROM_AOF) (·.journalLock h AOF_UPDATED))
    -- (fix: C04) the update may have raised the hold's Count: `wakeUpWaitLocks` after the reply
    (w3.reply c' RESULT_LOCKED_ERROR (w3.k.getR h).depth w.lockData).wake
  | .relockNoHold h =>
    let w := db.enter c.key
    w.reply c RESULT_SUCCED (w.k.getR h).depth w.lockData
  | .relock h =>
    let w := db.enter c.key
    let w5 := (((((w.modR h (fun r => { r with depth := r.depth + 1 })).modK incLocked).procData .lock c (frameOf c data) h).updateLocked h c).journalLock h
      AOF_UPDATED).ctr (fun x => { x with lockCount := x.lockCount + 1, lockedCount := x.lockedCount + 1 })
    -- (fix: C04) the re-lock replaces the hold's command: `wakeUpWaitLocks` after the reply
    (w5.reply c RESULT_SUCCED (w5.k.getR h).depth w.lockData).wake
  | .relockRefused h =>
    let w := db.enter c.key
    w.reply c RESULT_LOCKED_ERROR (w.k.getR h).depth w.lockData
  | .unlockedWaitRefused =>
    let w := db.enter c.key
    w.reply c RESULT_UNOWN_ERROR 0 w.lockData
  | .grant =>
    let w := db.enter c.key
    let n := w.newLock c data
    (n.1.grant n.2).when w.k.waited (·.wake)
  | .grantNoHold =>
    let w := db.enter c.key
    let n := w.newLock c data
    (((((n.1.grantNoHold n.2).freeCheck n.2).ctr (fun x => { x with lockCount := x.lockCount + 1 })).reply c RESULT_SUCCED 0 w.lockData).when
      w.k.waited (·.wake))
  | .queue =>
    let w := db.enter c.key
    let n := w.newLock c data
    ((((n.1.modK (·.addWaitLock n.2)).addTimeOut n.2).ref n.2).ctr (fun x => { x with waitCount := x.waitCount + 1 }))
  | .timeout =>
    let w := db.enter c.key
    let n := w.newLock c data
    let w1 := n.1.freeCheck n.2
    w1.reply c RESULT_TIMEOUT 0 w1.lockData

def opLock (db : DB) (c : Cmd) (data : Option Bytes) : DB × List Reply :=
  let w := applyLock db c data (classifyLock db c data)
  (w.commit, w.out)

/-! ### UNLOCK -/

inductive UnlockBranch
  | noManager                   -- U0
  | stateError
  | notLocked                   -- U1
  | unown                       -- U2
  | cancelNone | cancel (w : Nat)
  | dec (h : Nat) (c' : Cmd)    -- U4: one level
  | release (h : Nat) (c' : Cmd)   -- U5 / depth 1
  deriving Repr, DecidableEq

/-- the LAST live queue entry with the LockId (`cancelWaitLock`'s scan keeps the last match) -/
def findCancel (k : Key) (lockId : Nat) : Option Nat :=
  ((k.wait.map (·.rid)).filter (fun x => !k.deadWaiter x && (k.getR x).cmd.lockId == lockId)).getLast?

def classifyUnlock (db : DB) (c : Cmd) : UnlockBranch :=
  let k := db.getKey c.key
  if !db.hasKey c.key then .noManager
  else if !db.leader && !has c.flag F_FROM_AOF then .stateError
  else if k.locked == 0 then
    if has c.flag UF_CANCEL then
      (match findCancel k c.lockId with | some w => .cancel w | none => .cancelNone)
    else .notLocked
  else
    let go (h : Nat) (c' : Cmd) : UnlockBranch :=
      if (k.getR h).depth > 1 && c'.rcount > 0 && !has c'.tflag TF_PRIORITY then .dec h c' else .release h c'
    match findHolder k c.lockId with
    | some h => go h c
    | none =>
      if has c.flag UF_FIRST then
        match k.current with
        | some h => go h (showCmd c (k.getR h))
        | none => .unown
      else if has c.flag UF_CANCEL then
        (match findCancel k c.lockId with | some w => .cancel w | none => .cancelNone)
      else .unown

def W.bumpErr (w : W) : W := w.ctr (fun x => { x with unlockErrorCount := x.unlockErrorCount + 1 })

def applyUnlock (db : DB) (c : Cmd) (data : Option Bytes) (b : UnlockBranch) : W :=
  let w := db.openKey c.key
  match b with
  | .noManager => { w.bumpErr with out := [{ r := Slock.Engine.mkReply c RESULT_UNLOCK_ERROR 0 0, data := none }] }
  | .stateError => w.bumpErr.reply c RESULT_STATE_ERROR 0 w.lockData
  | .notLocked => w.bumpErr.reply c RESULT_UNLOCK_ERROR 0 w.lockData
  | .unown => w.bumpErr.reply c RESULT_UNOWN_ERROR 0 w.lockData
  | .cancelNone => w.bumpErr.reply c RESULT_UNLOCK_ERROR 0 w.lockData
  | .cancel x =>
    let r := w.k.getR x
    let w5 := ((((((w.modR x (fun r => { r with timeouted := true })).dropLongT x).modK (·.settleWait)).ctr
      (fun y => { y with waitCount := y.waitCount - 1 })).removeIfZero).ctr (fun y => { y with unLockCount := y.unLockCount + 1 }))
    -- (fix: C04) `wakeUpWaitLocks` unconditionally after the two replies (a reclaimed key record has `waited = false`: nothing happens)
    ((w5.reply c RESULT_LOCKED_ERROR 0 w5.lockData).reply { r.cmd with conn := r.conn } RESULT_UNLOCK_ERROR 0 w5.lockData).wake
  | .dec h c' =>
    let w1 := (w.modR h (fun r => { r with depth := r.depth - 1 })).modK (fun k => { k with locked := k.locked - 1 })
    let w4 := (((w1.procData .unlock c' (frameOf c' data) h).journalUnlock h (has c'.flag F_FROM_AOF) true AOF_UPDATED).ctr
      (fun y => { y with unLockCount := y.unLockCount + 1, lockedCount := y.lockedCount - 1 }))
    (w4.reply c' RESULT_SUCCED (w4.k.getR h).depth w1.lockData).wake
  | .release h c' =>
    let r := w.k.getR h
    let w2 := (((w.modR h (fun r => { r with expried := true })).modK (fun k => { k with locked := k.locked - r.depth })).procData .unlock c'
      (frameOf c' data) h)
    let long := (w2.k.getR h).eLong
    let w5 := (((w2.dropLongE h).journalUnlock h (has c'.flag F_FROM_AOF) false 0).modK (·.removeLock h))
    let w7 := ((w5.when (long && (w5.k.getR h).refCount == 0) (·.freeCheck h)).ctr
      (fun y => { y with unLockCount := y.unLockCount + r.depth, lockedCount := y.lockedCount - r.depth }))
    (w7.reply c' RESULT_SUCCED 0 w.lockData).wake

def opUnlock (db : DB) (c : Cmd) (data : Option Bytes) : DB × List Reply :=
  let w := applyUnlock db c data (classifyUnlock db c)
  (w.commit, w.out)

/-! ### timer sweeps -/

/-- the sweeper's reference to `lock` goes: entry gone, `refCount--`, freed at 0, empty key record reclaimed -/
def W.dropT (w : W) (rid : Nat) : W := (w.modR rid (fun r => { r with tSched := none })).unrefCheck rid
def W.dropE (w : W) (rid : Nat) : W := (w.modR rid (fun r => { r with eSched := none })).unrefCheck rid

/-- In this model a wheel entry is a field of the record it points to, so "the sweeper popped an entry" presupposes that the record
still exists and still carries the entry. That is a property of the REPRESENTATION (in the Go code an entry cannot leave a slot
except through the sweeper), checked explicitly: if it ever failed the model raises its error flag (the driver prints `panic`,
which no run of the real code produces) instead of continuing with a made-up record. -/
def Key.hasT (k : Key) (rid : Nat) : Bool := k.recs.any (·.rid == rid) && (k.getR rid).tSched.isSome
def Key.hasE (k : Key) (rid : Nat) : Bool := k.recs.any (·.rid == rid) && (k.getR rid).eSched.isSome
def W.wheelBroken (w : W) : W := { w with db := { w.db with panicked := true } }

/-- `doTimeOut(lock)` for the record the sweeper holds a reference to -/
def W.fireTimeout (w : W) (rid : Nat) : W :=
  let r := w.k.getR rid
  if !w.k.hasT rid then w.wheelBroken
  else if r.timeouted then w.dropT rid
  else
    let w5 := (((((w.modR rid (fun r => { r with timeouted := true })).modK (·.settleWait)).ctr
      (fun y => { y with waitCount := y.waitCount - 1 })).dropT rid).ctr (fun y => { y with timeoutedCount := y.timeoutedCount + 1 }))
    -- (fix: C04) `wakeUpWaitLocks` after the TIMEOUT notice of a waiter
    (w5.reply { r.cmd with conn := r.conn } RESULT_TIMEOUT 0 w5.lockData).wake

def fireTimeout (db : DB) (key rid : Nat) : DB × List Reply :=
  let w := (db.openKey key).fireTimeout rid
  (w.commit, w.out)

/-- a follower does not end a replicated hold on its own clock -/
def deferExpiry (db : DB) (r : Rec) : Bool := !db.leader && r.isAof && db.now - r.expT < WAIT_LEADER_MAX

/-- `doExpried(lock)` -/
def W.fireExpire (w : W) (rid : Nat) : W :=
  let r := w.k.getR rid
  if !w.k.hasE rid then w.wheelBroken
  else if r.expried then w.dropE rid
  else if deferExpiry w.db r then
    -- re-armed 30 s ahead (the popped entry is pushed again), no notice, the hold stays
    (w.modR rid (fun r => { r with expT := w.db.now + 30 })).addExpried rid
  else
    let w5 := ((((((w.modR rid (fun r => { r with expried := true })).modK (fun k => { k with locked := k.locked - r.depth })).when r.isAof
      (·.pushUnLockAof rid r.cmd false false AOF_EXPRIED)).modK (·.removeLock rid)).dropE rid).ctr
      (fun y => { y with lockedCount := y.lockedCount - r.depth, expriedCount := y.expriedCount + 1 }))
    (w5.reply { r.cmd with conn := r.conn } RESULT_EXPRIED 0 w5.lockData).wake

def fireExpire (db : DB) (key rid : Nat) : DB × List Reply :=
  let w := (db.openKey key).fireExpire rid
  (w.commit, w.out)

structure Ent where
  key : Nat
  rid : Nat
  seq : Nat
  deriving Repr, DecidableEq

def tEntries (db : DB) (p : Sched → Bool) : List Ent :=
  sortBySeq (·.seq) (db.keys.flatMap (fun k => k.recs.filterMap (fun r =>
    match r.tSched with
    | some s => if p s then some ⟨k.key, r.rid, s.seq⟩ else none
    | none => none)))

def eEntries (db : DB) (p : Sched → Bool) : List Ent :=
  sortBySeq (·.seq) (db.keys.flatMap (fun k => k.recs.filterMap (fun r =>
    match r.eSched with
    | some s => if p s then some ⟨k.key, r.rid, s.seq⟩ else none
    | none => none)))

/-- the sweeper pops one entry of the timeout wheel: tombstoned ⇒ drop the reference; not yet due (slot only) ⇒ back-off +1
and re-arm; due ⇒ collect (`none` = collected) -/
def W.visitTimeout (w : W) (slot : Bool) (rid : Nat) : Option W :=
  let r := w.k.getR rid
  if !w.k.hasT rid then some w.wheelBroken
  else if r.timeouted then some (w.dropT rid)
  else if slot && r.timeoutT > w.db.now then some ((w.modR rid (fun r => { r with tChecked := r.tChecked + 1 })).addTimeOut rid)
  else none

def W.visitExpire (w : W) (slot : Bool) (rid : Nat) : Option W :=
  let r := w.k.getR rid
  if !w.k.hasE rid then some w.wheelBroken
  else if r.expried then some (w.dropE rid)
  else if slot && r.expT > w.db.now then some ((w.modR rid (fun r => { r with eChecked := r.eChecked + 1 })).addExpried rid)
  else none

/-- the sweeper collects a due long-table entry: `LongWaitLockQueue.Pop` resets `longWaitIndex`, the entry is now in the sweeper's hand
(a wake pass that runs before its `doTimeOut` — since the C04 fix `doTimeOut` of an earlier entry ends with one — finds no long-table
entry to remove; `doTimeOut` then drops the sweeper's reference of the tombstoned record) -/
def W.collectT (w : W) (rid : Nat) : W :=
  w.modR rid (fun r => { r with tSched := r.tSched.map (fun s => { s with long := false }) })

def timeoutStep (slot : Bool) (acc : DB × List Ent) (e : Ent) : DB × List Ent :=
  match (acc.1.openKey e.key).visitTimeout slot e.rid with
  | some w => (w.commit, acc.2)
  | none => (if slot then acc.1 else ((acc.1.openKey e.key).collectT e.rid).commit, acc.2 ++ [e])

def expireStep (slot : Bool) (acc : DB × List Ent) (e : Ent) : DB × List Ent :=
  match (acc.1.openKey e.key).visitExpire slot e.rid with
  | some w => (w.commit, acc.2)
  | none => (acc.1, acc.2 ++ [e])

def fireTimeoutStep (acc : DB × List Reply) (e : Ent) : DB × List Reply :=
  let r := fireTimeout acc.1 e.key e.rid
  (r.1, acc.2 ++ r.2)

def fireExpireStep (acc : DB × List Reply) (e : Ent) : DB × List Reply :=
  let r := fireExpire acc.1 e.key e.rid
  (r.1, acc.2 ++ r.2)

/-- `checkTimeTimeOut(c, now)` -/
def sweepTimeout (db : DB) (c : Nat) : DB × List Reply :=
  let p1 := (tEntries db (fun s => s.visit == c && !s.long)).foldl (timeoutStep true) (db, [])
  let p2 := (tEntries db (fun s => s.visit == c && s.long)).foldl (timeoutStep false) p1
  p2.2.foldl fireTimeoutStep (p2.1, [])

/-- `checkTimeExpried(c, now)` -/
def sweepExpire (db : DB) (c : Nat) : DB × List Reply :=
  let p1 := (eEntries db (fun s => s.visit == c && !s.long)).foldl (expireStep true) (db, [])
  let p2 := (eEntries db (fun s => s.visit == c && s.long)).foldl (expireStep false) p1
  p2.2.foldl fireExpireStep (p2.1, [])

/-- one second of server time -/
def opTick (db : DB) : DB × List Reply :=
  let now := db.now + 1
  let db0 := { db with now := now, tCheck := now + 1 }
  let r1 := sweepTimeout db0 now
  let db2 := { r1.1 with eCheck := now + 1 }
  let r2 := sweepExpire db2 now
  (r2.1, r1.2 ++ r2.2)

/-! ### sequences -/

inductive Op
  | lock (c : Cmd) (data : Option Bytes)
  | unlock (c : Cmd) (data : Option Bytes)
  | tick
  | setLeader (b : Bool)
  deriving Repr

def step (db : DB) : Op → DB × List Reply
  | .lock c d => opLock db c d
  | .unlock c d => opUnlock db c d
  | .tick => opTick db
  | .setLeader b => ({ db with leader := b }, [])

def run (db : DB) (ops : List Op) : DB := ops.foldl (fun d o => (step d o).1) db

/-! ### abstraction to stage 1 -/

def Key.abs (k : Key) : Slock.Engine.Key :=
  { key := k.key, locked := k.locked, holders := k.holders.map Rec.toHold, waiters := k.waiters.map Rec.toWaiter, waited := k.waited }

/-- live holders in order, live waiters in queue order, counters, clock (keys without any live state are dropped, as stage 1 does) -/
def abs (db : DB) : Slock.Engine.DB :=
  { keys := (db.keys.map Key.abs).filter (fun k => !k.isEmpty), now := db.now, tCheck := db.tCheck, eCheck := db.eCheck, seq := db.seq,
    leader := db.leader, ctr := db.ctr }

end Slock.Engine2
