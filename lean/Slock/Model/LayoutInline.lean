import Slock.Model.Layout
/-!
Tables of the HAND-INLINED wire codecs of the server package (the LOCK / UNLOCK branches of
`BinaryServerProtocol.ProcessParse` and `TransparencyBinaryServerProtocol.ProcessParse`; the result-frame writer
`BinaryServerProtocol.ProcessLockResultCommand`), keyed by field name, and the comparison with the tables of the
protocol package's `LockCommand.Decode` / `LockResultCommand.Encode` (go/extract/inline.go regenerates them). Core only.
-/
namespace Slock.Layout

structure InlineDec where
  name : String
  file : String
  line : Nat
  /-- field ↦ [(frame offset, byte position within the field, little-endian)] -/
  fields : List (String × List (Nat × Nat))
  deriving Repr

inductive ISrc
  | const (v : Nat)
  /-- a named protocol constant (`protocol.MAGIC`) -/
  | named (c : String) (v : Nat)
  /-- byte `i` of field / result parameter `name` -/
  | field (name : String) (i : Nat)
  /-- one of two constants, chosen by `data != nil` -/
  | either (a b : Nat)
  | undef
  deriving DecidableEq, Repr

structure InlineEnc where
  name : String
  file : String
  line : Nat
  enc : List ISrc
  deriving Repr

/-- the table of a `Decode` method in the same form -/
def refDec (L : Layout) : List (String × List (Nat × Nat)) :=
  (L.fields.zip L.dec).map (fun p => (p.1.name, p.2.zip (List.range p.2.length)))

/-- an inlined decoder equals the method's table on every field except the two bytes it has already compared with
constants (`Magic`, `Version`): every field it decodes is decoded from the same bytes in the same order, and it decodes
all the others -/
def InlineDec.agrees (d : InlineDec) (L : Layout) : Bool :=
  d.fields.all (fun f => (refDec L).contains f) &&
  (refDec L).all (fun f => f.1 == "Magic" || f.1 == "Version" || d.fields.contains f)

/-- the table of an `Encode` method with field names -/
def refEnc (L : Layout) : List ISrc :=
  L.enc.map (fun s => match s with
    | .const v => .const v
    | .field f i => .field ((L.fields.getD f default).name) i
    | .str f i => .field ((L.fields.getD f default).name) i
    | .undef => .undef)

/-- byte-wise agreement of the inlined result writer with `LockResultCommand.Encode`:
identical sources, except that the inlined writer puts the constants `MAGIC` / `VERSION` where the method copies the
fields `Magic` / `Version` (which `NewLockResultCommand` sets to exactly those constants) and decides the `Flag` byte
itself (`flagData` when the reply carries data, else 0 — what `NewLockResultCommand` stores in `Flag`) -/
def srcAgrees (flagData : Nat) : ISrc → ISrc → Bool
  | .named "MAGIC" _, .field "Magic" 0 => true
  | .named "VERSION" _, .field "Version" 0 => true
  | .either a b, .field "Flag" 0 => a == flagData && b == 0
  | .const v, .const w => v == w
  | .field n i, .field m j => n == m && i == j
  | _, _ => false

def InlineEnc.agrees (e : InlineEnc) (L : Layout) (flagData : Nat) : Bool :=
  e.enc.length == 64 && (refEnc L).length == 64 &&
  (e.enc.zip (refEnc L)).all (fun p => srcAgrees flagData p.1 p.2)

end Slock.Layout
