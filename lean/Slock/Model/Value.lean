import Slock.Gen.Consts
/-
M-VALUE: the per-key value cell (`LockManagerData`) and `LockManager.ProcessLockData`
(/repo/server/lock.go 941–1167, 1474–1546) with the frame accessors of `protocol.LockCommandData`
(/repo/protocol/command.go 389–734), byte for byte, bugs included. Core Lean only.

Conventions
* A Go slice is modelled as `data` (the `len` bytes) plus `extra` (the bytes between `len` and `cap`):
  a sub-frame of a PIPELINE is `buf[i:j]`, whose capacity reaches to the end of the pipeline frame, and
  Go's `s[lo:hi]` is checked against the CAPACITY. Top-level frames come from `make([]byte, n)`
  (`Stream.ReadBytesFrame`), so their `extra` is empty.
* Every Go index / slice / nil-dereference / negative `make` is a checked access: the functions return
  `Except Panic _` and `.error ⟨site⟩` is "the goroutine panics at that site". Never a default value.
  Where several Go statements in a row can only fail for one and the same arithmetic reason, the model
  tests that reason once (the condition is spelled out next to the site) — the differential harness
  checks the outcome class (ok+bytes / panic) against the real function on every run.
* int64 arithmetic is `Nat` modulo 2^64 (two's complement: same low 64 bits for `+`, `byte(x>>8k)`).
* A frame the parser refuses (`parseFrame = none`: shorter than 6 bytes, or a property header that does not fit) never
  reaches `ProcessLockData`: `ProcessParseLockData` returns an error and the connection is closed; inside a PIPELINE the
  loop stops. `processFrame` then leaves the cell unchanged.
* EXECUTE sub-commands are outside the core subset: the cell is unchanged by them (that is what the Go
  code does); only their control flow inside PIPELINE (no reset before them) and the one checked access on
  their path (`GetValueOffset` in `DecodeLockCommand`) are modelled.
-/
namespace Slock.Value

abbrev Bytes := List UInt8

/-- Named panic sites (Go source position in the comment). -/
inductive Site
  | frameHdr       -- (repaired, 570db92) command.go data[4], data[5] on a frame shorter than 6 bytes — now refused
  | cmdValueOffset -- command.go:631  Data[6], Data[7]: property flag on a frame shorter than 8 bytes
  | incrNilCell    -- (repaired, 076286b) currentLockData.GetValueOffset() with currentLockData == nil — now 6
  | incrCellFlag   -- lock.go:1015    currentLockData.data[5]
  | incrWrite      -- lock.go:1003/4  data[4..5], data[valueOffset+i]
  | appendHdr      -- lock.go:1026    lockCommandData.Data[4]
  | appendBounds   -- lock.go:1030–34 make / data[i] / data[len(cur):] / Data[off:]  (value size < 0 or cell < 6 bytes)
  | shiftBounds    -- lock.go:1047–53 data[0..5] / data[valueOffset:] / cur[valueOffset+n:]  (valueOffset+n > len(cur))
  | pushBounds     -- lock.go:1111–27 Data[5] / Data[6:off] / data[index..] / Data[off:]  (value offset beyond the frame)
  | popSlice       -- (repaired, f897b3e) cur.data[i+4:i+4+valueLen] beyond the cell — the loop now stops
  | popHead        -- lock.go:1155    cur.data[4:i] beyond cap
  | pipelineBuf    -- lock.go:1080    Data[GetValueOffset():]
  | pipelineLen    -- (repaired, 639fbf7) buf[index+1..3] — the loop now needs 4 length bytes
  | decodeCmdSlice -- command.go DecodeLockCommand: self.Data[valueOffset:valueOffset+64]
  | decodeDataSlice -- command.go DecodeLockCommand: self.Data[valueOffset+68:valueOffset+dataLen+68]
  | fuel           -- model artefact: recursion budget exhausted (proved unreachable from `processFrame`)
  deriving DecidableEq, Repr, Inhabited

structure Panic where
  site : Site
  deriving DecidableEq, Repr, Inhabited

abbrev M := Except Panic

def panic {α} (s : Site) : M α := .error ⟨s⟩

def isPanic {α} : M α → Bool
  | .error _ => true
  | .ok _ => false

def panicSite {α} : M α → Option Site
  | .error p => some p.site
  | .ok _ => none

/-! ### constants (tied to the regenerated `Slock.Gen.C` by `consts_tie` below) -/
def SET : Nat := 0
def UNSET : Nat := 1
def INCR : Nat := 2
def APPEND : Nat := 3
def SHIFT : Nat := 4
def EXECUTE : Nat := 5
def PIPELINE : Nat := 6
def PUSH : Nat := 7
def POP : Nat := 8

def fNUMBER : UInt8 := 0x01
def fARRAY : UInt8 := 0x02
def fKV : UInt8 := 0x04
def fPROP : UInt8 := 0x10
def fFIRSTLAST : UInt8 := 0x20

open Slock.Gen in
theorem consts_tie :
    C.LOCK_DATA_COMMAND_TYPE_SET = SET ∧ C.LOCK_DATA_COMMAND_TYPE_UNSET = UNSET ∧ C.LOCK_DATA_COMMAND_TYPE_INCR = INCR
    ∧ C.LOCK_DATA_COMMAND_TYPE_APPEND = APPEND ∧ C.LOCK_DATA_COMMAND_TYPE_SHIFT = SHIFT
    ∧ C.LOCK_DATA_COMMAND_TYPE_EXECUTE = EXECUTE ∧ C.LOCK_DATA_COMMAND_TYPE_PIPELINE = PIPELINE
    ∧ C.LOCK_DATA_COMMAND_TYPE_PUSH = PUSH ∧ C.LOCK_DATA_COMMAND_TYPE_POP = POP
    ∧ C.LOCK_DATA_FLAG_VALUE_TYPE_NUMBER = fNUMBER.toNat ∧ C.LOCK_DATA_FLAG_VALUE_TYPE_ARRAY = fARRAY.toNat
    ∧ C.LOCK_DATA_FLAG_VALUE_TYPE_KV = fKV.toNat ∧ C.LOCK_DATA_FLAG_CONTAINS_PROPERTY = fPROP.toNat
    ∧ C.LOCK_DATA_FLAG_PROCESS_FIRST_OR_LAST = fFIRSTLAST.toNat ∧ C.LOCK_DATA_STAGE_CURRENT = 0
    -- the PIPELINE loop's guard compares the LOCK command type with the DATA op code 6: always "different"
    ∧ C.COMMAND_LOCK ≠ C.LOCK_DATA_COMMAND_TYPE_PIPELINE ∧ C.COMMAND_UNLOCK ≠ C.LOCK_DATA_COMMAND_TYPE_PIPELINE := by
  decide

/-! ### little-endian helpers -/
def leN : Nat → Nat → Bytes
  | 0, _ => []
  | k + 1, n => (n % 256).toUInt8 :: leN k (n / 256)

def le16 (n : Nat) : Bytes := leN 2 n
def le32 (n : Nat) : Bytes := leN 4 n
def le64 (n : Nat) : Bytes := leN 8 n

/-- zero-extended little-endian read of (at most the first few) bytes — the `for i … break` loops. -/
def readLE : Bytes → Nat
  | [] => 0
  | b :: bs => b.toNat + 256 * readLE bs

def hasFlag (f m : UInt8) : Bool := f &&& m != 0

/-- checked `l[i]` -/
def idx (s : Site) (l : Bytes) (i : Nat) : M UInt8 :=
  match l[i]? with
  | some b => .ok b
  | none => panic s

/-- `take n (l ++ 0,0,…)`: what `copy(dst[0:n], l)` leaves in a zeroed `dst`. -/
def padTake (n : Nat) (l : Bytes) : Bytes := (l ++ List.replicate n 0).take n

/-! ### `protocol.LockCommandData` -/
structure Cmd where
  data : Bytes
  extra : Bytes      -- bytes between len and cap of `Data`
  stage : Nat        -- CommandStage = data[4] >> 6   (a struct field: NOT re-read after in-place edits)
  ctype : Nat        -- CommandType  = data[4] & 0x3f
  flag : UInt8       -- DataFlag     = data[5]
  deriving DecidableEq, Repr

/-- `NewLockCommandDataFromOriginBytes`: `none` = the constructor returns nil (frame refused):
    fewer than 6 bytes, or the property flag is set and the header does not fit into the frame. -/
def parseFrame (data extra : Bytes) : Option Cmd :=
  match data[4]?, data[5]? with
  | some b4, some b5 =>
    if hasFlag b5 fPROP then
      match data[6]?, data[7]? with
      | some a, some b =>
        if a.toNat + 256 * b.toNat + 8 > data.length then none
        else some ⟨data, extra, b4.toNat / 64, b4.toNat % 64, b5⟩
      | _, _ => none
    else some ⟨data, extra, b4.toNat / 64, b4.toNat % 64, b5⟩
  | _, _ => none

/-- `LockCommandData.GetValueOffset` -/
def cmdOff (c : Cmd) : M Nat :=
  if hasFlag c.flag fPROP then do
    let a ← idx .cmdValueOffset c.data 6
    let b ← idx .cmdValueOffset c.data 7
    pure (a.toNat + 256 * b.toNat + 8)
  else pure 6

/-- `GetIncrValue` / `GetShiftLengthValue` / `GetPopCountValue` given the value offset (k = 8 / 4 / 4). -/
def readAt (d : Bytes) (off k : Nat) : Nat := readLE ((d.drop off).take k)

/-! ### `LockManagerData` -/
structure Cell where
  data : Bytes
  extra : Bytes
  ctype : Nat
  isAof : Bool
  deriving DecidableEq, Repr

def unsetCell (isAof : Bool) : Cell := ⟨[2, 0, 0, 0, 1, 0], [], UNSET, isAof⟩

/-- `LockManagerData.GetValueOffset` (no panic: guarded by `len < 8`). -/
def cellOff (d : Bytes) : Nat :=
  if d.length < 8 then 6
  else if hasFlag (d.getD 5 0) fPROP then (d.getD 6 0).toNat + 256 * (d.getD 7 0).toNat + 8
  else 6

/-- `GetData() != nil` -/
def Cell.hasData (c : Cell) : Bool := c.ctype != UNSET

def Cell.isArray (c : Cell) : Bool := decide (6 ≤ c.data.length) && hasFlag (c.data.getD 5 0) fARRAY

def Cell.incrValue (c : Cell) : Nat := if c.ctype = UNSET then 0 else readAt c.data (cellOff c.data) 8

/-- `GetLockData`: what a reply carries. -/
def getLockData : Option Cell → Option Bytes
  | some c => if c.hasData then some c.data else none
  | none => none

/-! ### the request context (fields of `command` and of the manager that `ProcessLockData` reads) -/
inductive CmdType | lock | unlock
  deriving DecidableEq, Repr

structure Ctx where
  locked : Nat
  waited : Bool
  cmdType : CmdType
  /-- `Flag&UPDATE_WHEN_LOCKED != 0 || (ExpriedFlag&0x4440 == 0 && Expried == 0)` -/
  updOrZero : Bool
  /-- `Flag&LOCK_FLAG_FROM_AOF != 0` -/
  fromAof : Bool
  requireRecover : Bool
  deriving DecidableEq, Repr

/-- The stage / first-or-last gate at the top of `ProcessLockData`; `false` = the frame is ignored. -/
def gate (cx : Ctx) (c : Cmd) : Bool :=
  if c.stage = 0 then
    if hasFlag c.flag fFIRSTLAST then
      match cx.cmdType with
      | .unlock => !(cx.locked != 0 || cx.waited)
      | .lock => cx.locked == 1
    else true
  else c.ctype == EXECUTE

/-! ### single operations -/
def opSet (cx : Ctx) (cur : Option Cell) (c : Cmd) : Option Cell :=
  let same := match cur with
    | some k => k.ctype == SET && k.data == c.data
    | none => false
  if cx.cmdType == .lock && cx.updOrZero && same then cur
  else some ⟨c.data, c.extra, SET, cx.fromAof⟩

def opUnset (cx : Ctx) (cur : Option Cell) : Option Cell :=
  match cur with
  | none => none
  | some k =>
    if cx.cmdType == .lock && cx.updOrZero && k.ctype == UNSET then cur
    else some (unsetCell cx.fromAof)

def opIncr (cx : Ctx) (cur : Option Cell) (c : Cmd) : M (Option Cell) := do
  let off ← cmdOff c
  let k := readAt c.data off 8
  let base := match cur with
    | some x => if x.hasData then x.incrValue else 0
    | none => 0
  let v := (k + base) % 2 ^ 64
  if c.data.length = off + 8 then
    -- in-place rewrite of the request frame (which becomes the cell)
    let b5 ← idx .incrWrite c.data 5
    pure (some ⟨c.data.take 4 ++ [0, b5 ||| fNUMBER] ++ (c.data.drop 6).take (off - 6) ++ le64 v, c.extra, INCR, cx.fromAof⟩)
  else
    -- `currentLockData.GetValueOffset()` answers 6 for a nil receiver
    let o := match cur with
      | none => 6
      | some x => cellOff x.data
    if o ≤ 6 then pure (some ⟨[10, 0, 0, 0, 0, 1] ++ le64 v, [], INCR, cx.fromAof⟩)
    else
      match cur with
      | none => panic .incrNilCell
      | some x => do
        let b5 ← idx .incrCellFlag x.data 5
        -- make(o+8), length prefix o+4; copy(data[6:], cur[6:]) then the number over [o, o+8)
        pure (some ⟨le32 (o + 4) ++ [0, b5 ||| fNUMBER] ++ padTake (o - 6) (x.data.drop 6) ++ le64 v, [], INCR, cx.fromAof⟩)

def opAppend (cx : Ctx) (cur : Option Cell) (c : Cmd) : M (Option Cell) :=
  let fresh : M (Option Cell) :=
    if c.data.length < 5 then panic .appendHdr
    else do
      -- the undo record of APPEND evaluates lockCommandData.GetValueOffset() (lock.go:1038)
      if cx.requireRecover then
        let _ ← cmdOff c
      pure (some ⟨c.data.take 4 ++ [0] ++ c.data.drop 5, c.extra, APPEND, cx.fromAof⟩)
  match cur with
  | none => fresh
  | some x =>
    if !x.hasData then fresh else do
      let off ← cmdOff c
      -- panics iff len(cur) < 6 or GetValueSize() < 0
      if x.data.length < 6 || c.data.length < off then panic .appendBounds else
      let b5 ← idx .appendBounds x.data 5
      let vs := c.data.length - off
      pure (some ⟨le32 (x.data.length - 4 + vs) ++ [0, b5] ++ x.data.drop 6 ++ c.data.drop off, [], APPEND, cx.fromAof⟩)

def opShift (cx : Ctx) (cur : Option Cell) (c : Cmd) : M (Option Cell) := do
  let off ← cmdOff c
  let n := readAt c.data off 4
  match cur with
  | none => pure cur
  | some x =>
    if !(x.hasData && decide (0 < n)) then pure cur else
    let dl := x.data.length
    let o := cellOff x.data
    if o ≤ dl then do
      -- the count is clamped to the value length
      let n' := if n > dl - o then dl - o else n
      let b5 ← idx .shiftBounds x.data 5
      pure (some ⟨le32 (dl - n' - 4) ++ [0, b5] ++ (x.data.drop 6).take (o - 6) ++ x.data.drop (o + n'), [], SHIFT, cx.fromAof⟩)
    else do
      -- value offset beyond the cell (no such cell can be stored any more): the clamp goes negative, the new cell is
      -- the header re-read up to the offset — `cur.data[6:valueOffset]` is checked against the capacity
      let b5 ← idx .shiftBounds x.data 5
      if o > dl + x.extra.length then panic .shiftBounds else
      pure (some ⟨le32 (o - 4) ++ [0, b5] ++ ((x.data ++ x.extra).drop 6).take (o - 6), [], SHIFT, cx.fromAof⟩)

def opPush (cx : Ctx) (cur : Option Cell) (c : Cmd) : M (Option Cell) :=
  let fresh : M (Option Cell) := do
    let fl := c.data.length
    let b5 ← idx .pushBounds c.data 5
    let off ← cmdOff c
    -- panics iff the value offset lies beyond the frame
    if off > fl then panic .pushBounds else
    pure (some ⟨le32 fl ++ [0, (b5 &&& 0xf8) ||| fARRAY] ++ (c.data.drop 6).take (off - 6) ++ le32 (fl - off) ++ c.data.drop off,
                [], PUSH, cx.fromAof⟩)
  match cur with
  | none => fresh
  | some x =>
    if !(x.hasData && x.isArray) then fresh else do
      let off ← cmdOff c
      if off > c.data.length then panic .pushBounds else
      let b5 ← idx .pushBounds x.data 5
      let vs := c.data.length - off
      pure (some ⟨le32 (x.data.length + vs) ++ [0, (b5 &&& 0xf8) ||| fARRAY] ++ x.data.drop 6 ++ le32 vs ++ c.data.drop off,
                  [], PUSH, cx.fromAof⟩)

/-- The element loop of POP (also the undo loops and `GetArrayValue`): `rem` = `data[i:]`, `for i+4 <= len`.
    Every element counts, the zero-length one included (repaired, e6b8126); the loop stops at an element that runs
    past the cell. -/
def parseElems : Nat → Bytes → List Bytes
  | 0, _ => []
  | fuel + 1, rem =>
    if rem.length < 4 then [] else
    let vl := readLE (rem.take 4)
    if 4 + vl > rem.length then []
    else (rem.drop 4).take vl :: parseElems fuel (rem.drop (4 + vl))

def encElems (xs : List Bytes) : Bytes := xs.flatMap (fun x => le32 x.length ++ x)

def opPop (cx : Ctx) (cur : Option Cell) (c : Cmd) : M (Option Cell) := do
  let off ← cmdOff c
  let n := readAt c.data off 4
  match cur with
  | none => pure cur
  | some x =>
    if !(x.hasData && decide (0 < n) && x.isArray) then pure cur else do
      let o := cellOff x.data
      let values := parseElems x.data.length (x.data.drop o)
      let rest := values.drop n
      let body := encElems rest
      -- copy(data[4:], cur.data[4:o]): checked against cap
      if o > x.data.length + x.extra.length then panic .popHead else
      pure (some ⟨le32 (o - 4 + body.length) ++ ((x.data ++ x.extra).drop 4).take (o - 4) ++ body, [], POP, cx.fromAof⟩)

/-- EXECUTE: cell unchanged. `DecodeLockCommand` (current stage, no undo record) computes the value offset. -/
def opExecute (cx : Ctx) (cur : Option Cell) (c : Cmd) : M (Option Cell) :=
  if c.stage = 0 && !cx.requireRecover then do
    let _ ← cmdOff c
    pure cur
  else pure cur

/-- every operation except PIPELINE, after the gate -/
def procOp (cx : Ctx) (cur : Option Cell) (c : Cmd) : M (Option Cell) :=
  if c.ctype = SET then pure (opSet cx cur c)
  else if c.ctype = UNSET then pure (opUnset cx cur)
  else if c.ctype = INCR then opIncr cx cur c
  else if c.ctype = APPEND then opAppend cx cur c
  else if c.ctype = SHIFT then opShift cx cur c
  else if c.ctype = EXECUTE then opExecute cx cur c
  else if c.ctype = PUSH then opPush cx cur c
  else if c.ctype = POP then opPop cx cur c
  else pure cur

/-- The PIPELINE loop over `rem = buf[index:]`. `pre` is the cell from before the pipeline:
    it is re-installed before every sub-frame that is not EXECUTE. -/
def pipeLoop (rec : Option Cell → Cmd → M (Option Cell)) (pre : Option Cell) (extra : Bytes) :
    Nat → Bytes → Option Cell → M (Option Cell)
  | 0, _, cur => pure cur
  | fuel + 1, rem, cur =>
    -- `for index+4 <= len(buf)`
    if rem.length < 4 then pure cur
    else
      let dataLen := readLE (rem.take 4)
      if 4 + dataLen > rem.length then pure cur
      else
        let rest := rem.drop (4 + dataLen)
        match parseFrame (rem.take (4 + dataLen)) (rest ++ extra) with
        | none => pure cur     -- refused sub-frame: the loop stops
        | some c => do
          let cur1 := if c.ctype ≠ EXECUTE then pre else cur
          let cur2 ← rec cur1 c
          pipeLoop rec pre extra fuel rest cur2

def pipeFinish (pre cur : Option Cell) : Option Cell :=
  match cur with
  | none => none
  | some k =>
    let preAof := match pre with
      | none => true
      | some p => p.isAof
    if !k.isAof && preAof then some { k with isAof := true } else some k

/-- `ProcessLockData` on one (already decoded) frame. `fuel` bounds the pipeline nesting depth. -/
def proc : Nat → Ctx → Option Cell → Cmd → M (Option Cell)
  | 0, _, _, _ => panic .fuel
  | fuel + 1, cx, cur, c =>
    if !gate cx c then pure cur
    else if c.ctype = PIPELINE then do
      let off ← cmdOff c
      if off > c.data.length then panic .pipelineBuf else
      let buf := c.data.drop off
      let cur' ← pipeLoop (proc fuel cx) cur c.extra buf.length buf cur
      pure (pipeFinish cur cur')
    else procOp cx cur c

/-- Entry point as reached from the wire: `ProcessParseLockData` (refusal = error) then `ProcessLockData`. -/
def processFrame (cx : Ctx) (cur : Option Cell) (frame : Bytes) : M (Option Cell) :=
  match parseFrame frame [] with
  | none => pure cur      -- refused: the connection gets an error, the cell is untouched
  | some c => proc (frame.length + 1) cx cur c

/-- The signature asked for in the design: `processLockData locked waited cmdType cell frame requireRecover`. -/
def processLockData (locked : Nat) (waited : Bool) (cmdType : CmdType) (cell : Option Cell) (frame : Bytes)
    (requireRecover : Bool) : M (Option Cell) :=
  processFrame ⟨locked, waited, cmdType, false, false, requireRecover⟩ cell frame

/-! ### specification: a sequential register -/
inductive Val
  | none
  | bytes (b : Bytes)
  | array (xs : List Bytes)
  deriving DecidableEq, Repr

/-- A number is its 8-byte little-endian two's-complement encoding (the code keeps no other distinction
    than an advisory flag bit). -/
def Val.num (n : Nat) : Val := .bytes (le64 (n % 2 ^ 64))

/-- the scalar bytes of a value (`none` ↦ empty; arrays have no scalar reading in the spec). -/
def Val.scalar : Val → Bytes
  | .bytes b => b
  | _ => []

/-- the number a value denotes: first ≤ 8 bytes, little-endian, zero-extended. -/
def Val.toNum (v : Val) : Nat := readLE (v.scalar.take 8)

def Val.elems : Val → List Bytes
  | .array xs => xs
  | _ => []

inductive Op
  | set (isArray : Bool) (payload : Bytes)   -- array-flagged payloads are element lists
  | unset
  | incr (operand : Bytes)                   -- 1..8 operand bytes, little-endian
  | append (b : Bytes)
  | shift (n : Nat)
  | push (b : Bytes)
  | pop (n : Nat)
  deriving Repr

/-- strict element decoding used only by the spec of SET-array -/
def specElems (payload : Bytes) : List Bytes := parseElems payload.length payload

def specApply (v : Val) : Op → Val
  | .set false b => .bytes b
  | .set true b => .array (specElems b)
  | .unset => .none
  | .incr k => .num (v.toNum + readLE (k.take 8))
  | .append b => .bytes (v.scalar ++ b)
  | .shift n =>
    match v with
    | .bytes b => .bytes (b.drop n)
    | _ => v
  | .push b => .array (v.elems ++ [b])
  | .pop n =>
    match v with
    | .array xs => .array (xs.drop n)
    | _ => v

def specRun (v : Val) (ops : List Op) : Val := ops.foldl specApply v

/-- abstraction of a cell -/
def absCell : Option Cell → Val
  | none => .none
  | some c =>
    if !c.hasData then .none
    else
      let payload := c.data.drop (cellOff c.data)
      if c.isArray then .array (parseElems c.data.length payload)
      else .bytes payload

/-- the property header of a cell (opaque to the spec): bytes [6, valueOffset) -/
def absProps : Option Cell → Bytes
  | none => []
  | some c => (c.data.drop 6).take (cellOff c.data - 6)

end Slock.Value
