/-!
# M-CONN — connection lifetimes, wills, reply routing (server/protocol.go, server/slock.go, server/server.go)

Core-only executable model. It mirrors the code that exists (defects included):

* `BinaryServerProtocol` / `TextServerProtocol`: `closed`, `inited`, `proxys[0]` (`clientId`, `serverProtocol`),
  `willCommands` (a FIFO: `Push` at the tail at registration, `Pop` from the head in `Close`).
* `SLock.clients : clientId → protocol` — written ONLY by the binary INIT command (`clients[id] = self`, unconditionally:
  a live holder of the id is displaced), deleted by `Init` (re-INIT) and at the END of `Close` when it still maps to self.
  `TextServerProtocol.Init` is a no-op and the text wire has no INIT, so a text connection never has an id
  (its proxy keeps the all-zero id it was created with — `cid = 0`).
* `ProxyServerProtocol.ProcessLockResultCommandLocked` (the route of every deferred reply: grant of a queued request,
  TIMEOUT, EXPRIED): proxy → its connection while that is open; after `Close` re-pointed it to `defaultServerProtocol`:
  look up `clients[proxy.clientId]`; found ⇒ `AddProxy` (proxy now points to that connection until THAT one closes) and
  hand the reply to it; not found ⇒ dropped ("Protocol Closed").
* `BinaryServerProtocol.ProcessLockResultCommand` when `closed`: not inited ⇒ dropped; inited ⇒ `clients[own id]`
  ⇒ `ProcessLockResultCommandLocked` of that one (which is the same function again for a binary connection; a chain
  that never reaches an open connection would be Go's "fatal error: stack overflow" = `Dest.loop`). `Close` removes its
  own `clients[id]` entry BEFORE it drains the wills through `self.ProcessCommad` (repo commit a1e474f; before it the
  entry was removed after the drain and the immediate reply of a will recursed for ever), clears `inited` after.
* Text wills: `commandHandlerLock/Unlock` map the type to LOCK/UNLOCK at registration (commit 66bd35e; before it the
  commands were re-queued by `Close` and never ran); `TextServerProtocol.Close` submits them through
  `self.ProcessCommad`; `TextServerProtocol.ProcessLockResultCommand` on a closed connection drops the result.
  `ProcessLockResultCommandLocked` first applies the late-reply filter `RequestId ≠ lockRequestId`.
* A proxy carrying the all-zero id (its connection never announced one) is not looked up in `clients` (commit 5edcdb1).
* `BinaryServerProtocol.ProcessCommad(COMMAND_ADMIN)` answers, then runs a NESTED `TextServerProtocol` on the same stream
  (`Event.admin`: a new text record with `outer = some c`; the binary connection processes nothing until it returns).
  Every way the nested `Process()` returns — read error, parse error, text QUIT — is an error the binary `Process()`
  passes on to `server.handle`, which closes the binary connection. When the nested loop returns the branch ends the
  nested protocol like any text connection — `Close()` with its `stream` field cleared, so the shared stream is left to
  the outer `Close` (repo commit, see C18.lean; before it the nested protocol was only marked `closed`: its wills never
  ran, its session stayed in `protocolSessions` until the 120 s sweep, its proxies were not re-pointed).
* A text LOCK blocks its handler goroutine in `<-lockWaiter`; a peer that goes away meanwhile is noticed only when the
  reply is written (`halfClosed`), and only then `server.handle` calls `Close`.
* `server.handle`: read error (client EOF), protocol error (`ProcessParse` error) and `stream.Close()` by the server
  (CLIENT KILL, shutdown) all end in the same `serverProtocol.Close()`; the cause is carried for the record only.

The lock engine is abstract: executing a will is the event "`Close` handed it to `ProcessCommad`" (`Server.willLog`, in
order). `ProcessCommad` either submits it to the engine, or — `Will.self`: DbId 0xff, or an UNLOCK for a db id that was
never created — answers it ITSELF with RESULT_UNKNOWN_DB through `self.ProcessLockResultCommand`, which on the closed
connection fails ("Protocol Closed", the error `Close` ignores) or is delivered to the connection that re-announced the
same client id; such a will never reaches the engine, and the loop goes on with the next one either way;
a pending request is a token whose issuing connection the engine remembers through that connection's proxy
(`Server.owner`); `Event.deliver tok` = "the engine answers token `tok` now"; a will carries the bit `imm` = "the engine
answers it inside the submitting call" (told by the environment, like every engine fact).
Ghost fields (never read by the transition function): `Conn.reg`, `Conn.announced`, `Server.willLog`.
-/
namespace Slock.Conn

inductive Kind where
  | binary | text
  deriving DecidableEq, Repr, Inhabited

/-- `proxys[0].serverProtocol` of a connection -/
inductive Target where
  | self                -- the connection itself (from construction until `Close`)
  | default             -- `defaultServerProtocol` (set by `Close` of whoever held the proxy in its `proxys`)
  | conn (d : Nat)      -- adopted by connection `d` (`AddProxy` after a successful `clients` lookup)
  deriving DecidableEq, Repr, Inhabited

structure Will where
  tok : Nat
  /-- the engine answers it inside the submitting call -/
  imm : Bool
  /-- answered by the protocol itself (RESULT_UNKNOWN_DB), never submitted to the engine -/
  self : Bool := false
  deriving DecidableEq, Repr, Inhabited

structure Conn where
  kind : Kind
  closed : Bool := false
  inited : Bool := false
  /-- `proxys[0].clientId`; 0 = the all-zero id every proxy is created with -/
  cid : Nat := 0
  target : Target := .self
  wills : List Will := []
  /-- text: `lockRequestId` — token of the LOCK/UNLOCK the handler is blocked on (0 = zeroed) -/
  awaiting : Nat := 0
  /-- text: the peer is gone while the handler is blocked; noticed at the next write. Binary: only in ADMIN mode, while
  the nested text handler is blocked with the peer gone: replies written for the binary protocol are lost -/
  halfClosed : Bool := false
  /-- binary: the record of the nested text protocol started by ADMIN -/
  nested : Option Nat := none
  /-- nested text protocol: the binary connection whose stream it reads -/
  outer : Option Nat := none
  /-- ghost: tokens of the accepted will registrations, in order -/
  reg : List Nat := []
  /-- ghost: every client id this connection ever announced -/
  announced : List Nat := []
  deriving DecidableEq, Repr, Inhabited

inductive Fatal where
  | crash     -- fatal error: stack overflow (process gone)
  deriving DecidableEq, Repr

structure Server where
  conns : List Conn := []
  clients : List (Nat × Nat) := []
  owner : List (Nat × Nat) := []
  willLog : List (Nat × Nat) := []
  dead : Option Fatal := none
  deriving DecidableEq, Repr

/-! ### association lists (Go maps) -/
def aget : List (Nat × Nat) → Nat → Option Nat
  | [], _ => none
  | (a, b) :: r, k => if a = k then some b else aget r k

def adel : List (Nat × Nat) → Nat → List (Nat × Nat)
  | [], _ => []
  | (a, b) :: r, k => if a = k then adel r k else (a, b) :: adel r k

def aput (m : List (Nat × Nat)) (k v : Nat) : List (Nat × Nat) := (k, v) :: adel m k

/-! ### where a reply ends up -/
inductive Dest where
  | to (d : Nat)        -- written to connection d's stream
  | dropped             -- "Protocol Closed": no connection / not inited / no such client id / unknown token
  | filtered            -- text late-reply filter (`RequestId ≠ lockRequestId`)
  | lost (d : Nat)      -- handed to blocked text connection d whose peer is gone: the write fails, d closes
  | loop                -- unbounded recursion
  deriving DecidableEq, Repr

/-- `X.ProcessLockResultCommandLocked(reply for tok)` called on connection `d`. `fuel` bounds the chain of
closed-and-inited binary connections forwarding through `clients`; a chain longer than the number of connections has a
cycle, i.e. the real recursion never ends. -/
def recvN (s : Server) : Nat → Nat → Nat → Dest
  | 0, _, _ => .loop
  | fuel + 1, d, tok =>
    match s.conns[d]? with
    | none => .dropped
    | some x =>
      match x.kind with
      | .text =>
        if tok ≠ x.awaiting then .filtered
        else if x.closed then .dropped
        else if x.halfClosed then .lost d
        else .to d
      | .binary =>
        if !x.closed then (if x.halfClosed then .dropped else .to d)   -- halfClosed: ADMIN mode, peer gone: the write fails
        else if !x.inited then .dropped
        else match aget s.clients x.cid with
          | none => .dropped
          | some e => recvN s fuel e tok

def recv (s : Server) (d tok : Nat) : Dest := recvN s (s.conns.length + 1) d tok

def isOpen (s : Server) (d : Nat) : Bool :=
  match s.conns[d]? with
  | some y => !y.closed
  | none => false

/-- `ProxyServerProtocol.ProcessLockResultCommandLocked` for the proxy of the token's issuer -/
def route (s : Server) (tok : Nat) : Server × Dest :=
  match aget s.owner tok with
  | none => (s, .dropped)
  | some o =>
    match s.conns[o]? with
    | none => (s, .dropped)
    | some x =>
      match x.target with
      | .self => (s, recv s o tok)
      | .conn d => (s, recv s d tok)
      | .default =>
        if x.cid = 0 then (s, .dropped)   -- never announced an id
        else
        match aget s.clients x.cid with
        | none => (s, .dropped)
        | some d =>
          if isOpen s d then
            ({ s with conns := s.conns.set o { x with target := .conn d } }, recv s d tok)
          else (s, recv s d tok)

/-! ### Close -/
/-- `for _, proxy := range self.proxys { proxy.serverProtocol = defaultServerProtocol }` for the adopted proxies -/
def unadopt (c : Nat) (x : Conn) : Conn :=
  if x.target = .conn c then { x with target := .default } else x

/-- what `Close` did with one will: `self` = answered by the protocol itself, `reply` = fate of the reply produced
inside the call (`none` = the engine queued the request) -/
structure WillRes where
  tok : Nat
  self : Bool
  reply : Option Dest
  deriving DecidableEq, Repr

/-- `Close` pops the will queue from the head and hands each command to `self.ProcessCommad`. If a reply is produced
inside that call — by the engine (`imm`) or by the protocol itself (`self`) — it goes to
`self.ProcessLockResultCommand`. Binary: the closed branch of `recvN` on `s₁` (`c` already marked closed and
unregistered, still inited). The error that returns is ignored: the loop always goes on with the next will. Returns the
outcome per will, and the fatal condition that stopped the loop, if any. -/
def drain (s₁ : Server) (c : Nat) : List Will → List WillRes × Option Fatal
  | [] => ([], none)
  | w :: ws =>
    if w.imm || w.self then
      match recv s₁ c w.tok with
      | .loop => ([⟨w.tok, w.self, some .loop⟩], some .crash)
      | d =>
        let r := drain s₁ c ws
        (⟨w.tok, w.self, some d⟩ :: r.1, r.2)
    else
      let r := drain s₁ c ws
      (⟨w.tok, w.self, none⟩ :: r.1, r.2)

/-- text: the closed connection drops every reply produced inside the call -/
def drainT : List Will → List WillRes
  | [] => []
  | w :: ws => ⟨w.tok, w.self, if w.imm || w.self then some .dropped else none⟩ :: drainT ws

def putOwners (m : List (Nat × Nat)) (c : Nat) : List Nat → List (Nat × Nat)
  | [] => m
  | t :: ts => putOwners (aput m t c) c ts

inductive Out where
  | opened (c : Nat)
  | ignored
  | inited (t : Nat)
  | ok
  | routed (d : Dest)
  | routedClosed (d : Dest) (res : List WillRes) (f : Option Fatal)
  | closed (res : List WillRes) (f : Option Fatal)
  | deferred
  | noop
  deriving DecidableEq, Repr

/-- the record of a connection while its `Close` drains the wills: `closed = true`, own proxy re-pointed, the will
queue taken out (`self.willCommands = nil`) -/
def closing (x : Conn) : Conn :=
  { x with closed := true, target := .default, halfClosed := false, wills := [] }

/-- the will loop of `Close` by protocol kind -/
def drainK (s₁ : Server) (c : Nat) (x : Conn) : List WillRes × Option Fatal :=
  match x.kind with
  | .binary => drain s₁ c x.wills
  | .text => (drainT x.wills, none)

/-- `clients` after the closing connection removed its own registration (binary, inited, still registered as itself) -/
def unregister (s : Server) (c : Nat) (x : Conn) : List (Nat × Nat) :=
  if x.kind = .binary ∧ x.inited = true ∧ aget s.clients x.cid = some c then adel s.clients x.cid else s.clients

/-- `Close()` of open connection `c` (record `x`): mark closed, re-point the proxies, unregister, drain the wills, clear
`inited` (a text connection has neither `inited` nor a registration: its `inited` is constantly false). -/
def doClose (s : Server) (c : Nat) (x : Conn) : Server × List WillRes × Option Fatal :=
  let s₁ : Server := { s with conns := (s.conns.map (unadopt c)).set c (closing x), clients := unregister s c x }
  let r := drainK s₁ c x
  let toks := r.1.map (·.tok)
  let s₂ : Server := { s₁ with willLog := s.willLog ++ toks.map (fun t => (c, t)), owner := putOwners s.owner c toks, dead := r.2 }
  match r.2 with
  | some _ => (s₂, r.1, r.2)
  | none => ({ s₂ with conns := s₂.conns.set c { closing x with inited := false } }, r.1, none)

/-! ### events -/
inductive Cause where
  | client | protoErr | server | quit   -- quit: the binary QUIT command (answered, then `Process` returns io.EOF)
  deriving DecidableEq, Repr

inductive Event where
  | open (k : Kind)
  | init (c cid : Nat)
  | will (c tok : Nat) (imm : Bool) (self : Bool)
  | request (c tok : Nat)
  | deliver (tok : Nat)
  | close (c : Nat) (cause : Cause)
  | admin (c : Nat)
  deriving DecidableEq, Repr

def stepInit (s : Server) (c cid : Nat) : Server × Out :=
  match s.conns[c]? with
  | none => (s, .ignored)
  | some x =>
    if x.closed = true ∨ x.kind = .text ∨ x.awaiting ≠ 0 ∨ x.nested ≠ none then (s, .ignored)
    else
      let cl₁ := if x.inited = true ∧ aget s.clients x.cid = some c then adel s.clients x.cid else s.clients
      let t := if (aget cl₁ cid).isSome then 1 else 0
      ({ s with conns := s.conns.set c { x with cid := cid, inited := true, announced := cid :: x.announced },
                clients := aput cl₁ cid c }, .inited t)

def stepWill (s : Server) (c tok : Nat) (imm self : Bool) : Server × Out :=
  match s.conns[c]? with
  | none => (s, .ignored)
  | some x =>
    if x.closed = true ∨ x.awaiting ≠ 0 ∨ x.nested ≠ none then (s, .ignored)
    else ({ s with conns := s.conns.set c { x with wills := x.wills ++ [{ tok := tok, imm := imm, self := self }], reg := x.reg ++ [tok] } }, .ok)

def stepRequest (s : Server) (c tok : Nat) : Server × Out :=
  match s.conns[c]? with
  | none => (s, .ignored)
  | some x =>
    if x.closed = true ∨ x.awaiting ≠ 0 ∨ x.nested ≠ none then (s, .ignored)
    else
      match x.kind with
      | .binary => ({ s with owner := aput s.owner tok c }, .ok)
      | .text => ({ s with owner := aput s.owner tok c, conns := s.conns.set c { x with awaiting := tok } }, .ok)

/-- ADMIN on open binary connection `c`: a nested text protocol (a new record) takes over the stream -/
def stepAdmin (s : Server) (c : Nat) : Server × Out :=
  match s.conns[c]? with
  | none => (s, .ignored)
  | some x =>
    if x.closed = true ∨ x.kind = .text ∨ x.awaiting ≠ 0 ∨ x.nested ≠ none then (s, .ignored)
    else
      ({ s with conns := s.conns.set c { x with nested := some s.conns.length } ++ [{ kind := .text, outer := some c }] },
       .opened s.conns.length)

/-- `Close()` reached for the single record `c` (the end of its `Process()` loop): nothing if already closed; a blocked
text handler notices only at the next write -/
def closeOne (s : Server) (c : Nat) : Server × Out :=
  match s.conns[c]? with
  | none => (s, .ignored)
  | some x =>
    if x.closed = true then (s, .noop)
    else if x.awaiting ≠ 0 then ({ s with conns := s.conns.set c { x with halfClosed := true } }, .deferred)
    else
      let r := doClose s c x
      (r.1, .closed r.2.1 r.2.2)

/-- the connection whose stream record `c` reads -/
def streamOf (s : Server) (c : Nat) : Nat :=
  match s.conns[c]? with
  | some x => x.outer.getD c
  | none => c

/-- the nested text protocol of connection `o`, while it is running -/
def nestedOf (s : Server) (o : Nat) : Option Nat :=
  match s.conns[o]? with
  | none => none
  | some x =>
    match x.nested with
    | none => none
    | some n =>
      match s.conns[n]? with
      | none => none
      | some y => if y.closed = true then none else some n

/-- the stream of record `c` ends: a running nested text protocol ends first (its `Close`, wills included), then the
connection itself closes; a blocked nested handler defers everything to its next write -/
def stepClose (s : Server) (c : Nat) : Server × Out :=
  match nestedOf s (streamOf s c) with
  | none => closeOne s (streamOf s c)
  | some n =>
    let r₁ := closeOne s n
    match r₁.2 with
    | .closed res₁ none =>
      let r₂ := closeOne r₁.1 (streamOf s c)
      match r₂.2 with
      | .closed res₂ f => (r₂.1, .closed (res₁ ++ res₂) f)
      | _ => r₂
    | .deferred =>
      -- the nested handler is blocked: nothing ends yet, but whatever is written to the stream from now on is lost
      match r₁.1.conns[streamOf s c]? with
      | some x => ({ r₁.1 with conns := r₁.1.conns.set (streamOf s c) { x with halfClosed := true } }, .deferred)
      | none => r₁
    | _ => r₁

/-- after the reply reached a text connection: `lockRequestId` is zeroed, the handler goes on; if the peer is gone the
write fails, `Process()` returns and the stream's connection is closed -/
def settle (s : Server) : Dest → Server × Out
  | .to d =>
    match s.conns[d]? with
    | some y => if y.kind = .text then ({ s with conns := s.conns.set d { y with awaiting := 0 } }, .routed (.to d)) else (s, .routed (.to d))
    | none => (s, .routed (.to d))
  | .lost d =>
    match s.conns[d]? with
    | some y =>
      let r := stepClose { s with conns := s.conns.set d { y with awaiting := 0 } } d
      match r.2 with
      | .closed res f => (r.1, .routedClosed (.lost d) res f)
      | _ => (r.1, .routed (.lost d))
    | none => (s, .routed (.lost d))
  | d => (s, .routed d)

def stepDeliver (s : Server) (tok : Nat) : Server × Out :=
  let r := route s tok
  settle r.1 r.2

def step (s : Server) (e : Event) : Server × Out :=
  match s.dead with
  | some _ => (s, .ignored)
  | none =>
    match e with
    | .open k => ({ s with conns := s.conns ++ [{ kind := k }] }, .opened s.conns.length)
    | .init c cid => stepInit s c cid
    | .will c tok imm sf => stepWill s c tok imm sf
    | .request c tok => stepRequest s c tok
    | .deliver tok => stepDeliver s tok
    | .close c _ => stepClose s c
    | .admin c => stepAdmin s c

def run (evs : List Event) : Server := evs.foldl (fun s e => (step s e).1) {}

def runOut : Server → List Event → List Out
  | _, [] => []
  | s, e :: es => (step s e).2 :: runOut (step s e).1 es

/-- the will tokens of connection `c` in a will execution log, in order -/
def execL (eng : List (Nat × Nat)) (c : Nat) : List Nat := (eng.filter (fun e => e.1 = c)).map (·.2)

/-- the will tokens of connection `c` that `Close` has executed (handed to `ProcessCommad`), in order -/
def execOf (s : Server) (c : Nat) : List Nat := execL s.willLog c

end Slock.Conn
