/-!
Checked-access model of the ARGUMENT INDEXING of the server-side text command handlers (C13, text side).

The extractor (go/extract/texthandlers.go) lists every read `args[a*i + b]` (or `args[e:]`, emitted as index `e-1`) in
`TextServerProtocol.commandHandler*` / `Admin.commandHandle*` and the local functions they pass `args` to, together with
the facts that dominate the read in the source: early-return guards on `len(args)`, short-circuit conditions, the loop
header, in-loop guards.  `Read.safe` says the read is in range for EVERY argument-list length and EVERY value of the
loop variable compatible with the facts; `Read.check` is a decidable sufficient condition.  Core Lean only.
-/
namespace Slock.TextH

inductive Fact
  /-- `len(args) ≥ n` -/
  | lenGe (n : Nat)
  /-- `len(args) ≠ n` -/
  | lenNe (n : Nat)
  /-- loop condition `i < len(args)` -/
  | iLtLen
  /-- `i + k < len(args)` (the false branch of `if i+k >= len(args) { return … }`) -/
  | iPlusLt (k : Nat)
  /-- loop condition `i < (len(args) - c) / d` -/
  | iLtDiv (c d : Nat)
  /-- the read is not in a shape the extractor recognises: nothing is known -/
  | unknown
  deriving DecidableEq, Repr

def Fact.holds (len i : Nat) : Fact → Prop
  | .lenGe n => n ≤ len
  | .lenNe n => len ≠ n
  | .iLtLen => i < len
  | .iPlusLt k => i + k < len
  | .iLtDiv c d => i < (len - c) / d
  | .unknown => True

structure Read where
  fn : String
  line : Nat
  expr : String
  /-- the index read is `a * i + b` (`a = 0`: a constant index) -/
  a : Nat
  b : Nat
  facts : List Fact
  deriving Repr

/-- in range for ALL argument lists and loop positions that reach the read -/
def Read.safe (r : Read) : Prop :=
  ∀ len i : Nat, (∀ f ∈ r.facts, f.holds len i) → r.a * i + r.b < len

/-- the least length compatible with the `lenGe` facts … -/
def minLen : List Fact → Nat
  | [] => 0
  | .lenGe n :: fs => max n (minLen fs)
  | _ :: fs => minLen fs

/-- … pushed past one excluded length (`len ≥ m`, `len ≠ m` ⇒ `len ≥ m+1`) -/
def minLen' (fs : List Fact) : Nat :=
  let m := minLen fs
  if fs.contains (.lenNe m) then m + 1 else m

def Read.check (r : Read) : Bool :=
  if r.a = 0 then decide (r.b < minLen' r.facts)
  else if r.a = 1 then
    (r.b = 0 && r.facts.contains .iLtLen) || r.facts.any (fun f => match f with | .iPlusLt k => decide (r.b ≤ k) | _ => false)
  else
    r.facts.any (fun f => match f with | .iLtDiv c d => decide (d = r.a ∧ 0 < d ∧ r.b < c + d) && r.facts.any (fun g => match g with | .lenGe n => decide (c ≤ n) | _ => false) | _ => false)

/-! ## index expressions into the database table `….dbs[e]` -/

/-- why an index expression into `dbs` is in range (classified by go/extract/dbsindex.go) -/
inductive DbsKind
  /-- the index has type uint8 -/
  | u8
  /-- the index is the key of `for i := range ….dbs` -/
  | range
  /-- a wider index, after `if e >= uint32(len(….dbs)) { return … }` -/
  | guarded
  /-- a wider index without such a guard -/
  | unguarded
  | unknown
  deriving DecidableEq, Repr

structure DbsRead where
  fn : String
  file : String
  line : Nat
  expr : String
  kind : DbsKind
  deriving Repr

/-- what the classification guarantees about the run-time index `idx` into a table of `len` slots -/
def DbsKind.premise (len idx : Nat) : DbsKind → Prop
  | .u8 => idx < 256
  | .range => idx < len
  | .guarded => ¬ (idx ≥ len)
  | .unguarded => True
  | .unknown => True

/-- in range for every index value the classification admits, given the table size -/
def DbsRead.safe (size : Nat) (r : DbsRead) : Prop :=
  ∀ idx : Nat, r.kind.premise size idx → idx < size

def DbsRead.check (size : Nat) (r : DbsRead) : Bool :=
  match r.kind with
  | .u8 => decide (256 ≤ size)
  | .range => true
  | .guarded => true
  | .unguarded => false
  | .unknown => false

end Slock.TextH
