import Slock.Model.Text
/-!
M-TEXT (part 2): key/id normalisation (both copies), the text → LockCommand converters of
`protocol/textcommand.go` and the LOCK/UNLOCK result renderers.  Core Lean only.

Every Go index expression `args[k]` is a CHECKED access (`idx`) whose failure is the outcome `panic`;
the Go length guards are modelled exactly as written (after the repairs "fix: ConvertArgs2Flag checks i+1 …" and
"fix: SETEX/PSETEX require 4 arguments …": `i+1 >= len(args)`, `len(args) < 4` before `args[3]`).
`strings.ToUpper` is modelled on ASCII letters (keywords are ASCII; the two non-ASCII runes whose upper case is an
ASCII letter, U+0131 and U+017F, are outside the model and outside the harness generators).
-/
namespace Slock.Text
open Slock.Gen

/-! ## key / id normalisation -/

def hexNib (b : UInt8) : Option Nat :=
  if 48 ≤ b.toNat ∧ b.toNat ≤ 57 then some (b.toNat - 48)
  else if 97 ≤ b.toNat ∧ b.toNat ≤ 102 then some (b.toNat - 87)
  else if 65 ≤ b.toNat ∧ b.toNat ≤ 70 then some (b.toNat - 55)
  else none

/-- `encoding/hex.DecodeString` -/
def hexDecode : Bytes → Option Bytes
  | [] => some []
  | [_] => none
  | a :: b :: rest =>
    match hexNib a, hexNib b, hexDecode rest with
    | some x, some y, some r => some ((x * 16 + y).toUInt8 :: r)
    | _, _, _ => none

def leftPad16 (k : Bytes) : Bytes := List.replicate (16 - k.length) 0 ++ k

/-- `protocol.ConvertString2LockKey` (protocol/protocol.go), branch for branch; `h` = `md5.Sum`. -/
def convertString2LockKey (h : Bytes → Bytes) (key : Bytes) : Bytes :=
  if key.length = 16 then key
  else if key.length > 16 then
    if key.length = 32 then
      match hexDecode key with
      | some v => v.take 16
      | none => (h key).take 16
    else (h key).take 16
  else leftPad16 key

/-- `TextCommandConverter.ConvertArgId2LockId` (protocol/textcommand.go), the second copy. -/
def convertArgId2LockId (h : Bytes → Bytes) (argId : Bytes) : Bytes :=
  if argId.length = 16 then argId
  else if argId.length > 16 then
    if argId.length = 32 then
      match hexDecode argId with
      | some v => v.take 16
      | none => (h argId).take 16
    else (h argId).take 16
  else
    (List.range 16).map (fun i => if i < 16 - argId.length then 0 else argId.getD (i - (16 - argId.length)) 0)

/-- the documented rule -/
def docRule (h : Bytes → Bytes) (k : Bytes) : Bytes :=
  if k.length ≤ 16 then leftPad16 k
  else if k.length = 32 then
    match hexDecode k with
    | some v => v
    | none => h k
  else h k

/-! ## commands -/

inductive IdV
  | bytes (b : Bytes)
  /-- `lockCommand.RequestId` (random) -/
  | req
  /-- `textProtocol.GetLockId()` -/
  | proto
  /-- `GenLockId()` (random) -/
  | gen
  deriving DecidableEq, Repr, Inhabited

structure Hdr where
  commandType : Nat := 0
  flag : Nat := 0
  dbId : Nat := 0
  lockId : IdV := .bytes (List.replicate 16 0)
  lockKey : Bytes := List.replicate 16 0
  timeoutFlag : Nat := 0
  timeout : Nat := 0
  expriedFlag : Nat := 0
  expried : Nat := 0
  count : Nat := 0
  rcount : Nat := 0
  deriving DecidableEq, Repr, Inhabited

inductive DataV
  | none
  | raw (b : Bytes)
  | exec (stage : Nat) (sub : Hdr) (subData : DataV)
  deriving DecidableEq, Repr, Inhabited

structure LockCmd where
  hdr : Hdr
  data : DataV := .none
  deriving DecidableEq, Repr, Inhabited

inductive Conv
  | ok (c : LockCmd)
  | err (cls : String)
  | panic
  deriving DecidableEq, Repr, Inhabited

def Conv.isPanic : Conv → Bool
  | .panic => true
  | _ => false

structure Ctx where
  dbId : Nat := 0
  /-- `textProtocol.GetTimeout()` -/
  timeout : Nat := 0
  md5 : Bytes → Bytes

def upper (s : Bytes) : Bytes := s.map (fun c => if 97 ≤ c.toNat ∧ c.toNat ≤ 122 then (c.toNat - 32).toUInt8 else c)

def u8 (x : Int) : Nat := (x % 256).toNat
def u16 (x : Int) : Nat := (x % 65536).toNat
def u32 (x : Int) : Nat := (x % 4294967296).toNat
def u64 (x : Int) : Nat := (x % 18446744073709551616).toNat

def le (n : Nat) (v : Nat) : Bytes := (List.range n).map (fun i => (v / 2 ^ (8 * i)).toUInt8)

def kLOCK : Bytes := [76, 79, 67, 75]
def kUNLOCK : Bytes := [85, 78, 76, 79, 67, 75]
def kPUSH : Bytes := [80, 85, 83, 72]
def kLOCK_ID : Bytes := [76, 79, 67, 75, 95, 73, 68]
def kFLAG : Bytes := [70, 76, 65, 71]
def kTIMEOUT : Bytes := [84, 73, 77, 69, 79, 85, 84]
def kEXPRIED : Bytes := [69, 88, 80, 82, 73, 69, 68]
def kCOUNT : Bytes := [67, 79, 85, 78, 84]
def kRCOUNT : Bytes := [82, 67, 79, 85, 78, 84]
def kWILL : Bytes := [87, 73, 76, 76]
def kSET : Bytes := [83, 69, 84]
def kUNSET : Bytes := [85, 78, 83, 69, 84]
def kINCR : Bytes := [73, 78, 67, 82]
def kAPPEND : Bytes := [65, 80, 80, 69, 78, 68]
def kSHIFT : Bytes := [83, 72, 73, 70, 84]
def kEXECUTE : Bytes := [69, 88, 69, 67, 85, 84, 69]
def kPOP : Bytes := [80, 79, 80]
def kEX : Bytes := [69, 88]
def kPX : Bytes := [80, 88]
def kTX : Bytes := [84, 88]
def kPTX : Bytes := [80, 84, 88]
def kNX : Bytes := [78, 88]
def kXX : Bytes := [88, 88]
def kACK : Bytes := [65, 67, 75]
def kNAOF : Bytes := [78, 65, 79, 70]
def kDEL : Bytes := [68, 69, 76]
def kSETEX : Bytes := [83, 69, 84, 69, 88]
def kPSETEX : Bytes := [80, 83, 69, 84, 69, 88]
def kSETNX : Bytes := [83, 69, 84, 78, 88]
def kGETSET : Bytes := [71, 69, 84, 83, 69, 84]
def kINCRBY : Bytes := [73, 78, 67, 82, 66, 89]
def kDECR : Bytes := [68, 69, 67, 82]
def kDECRBY : Bytes := [68, 69, 67, 82, 66, 89]
def kEXPIRE : Bytes := [69, 88, 80, 73, 82, 69]
def kEXPIREAT : Bytes := [69, 88, 80, 73, 82, 69, 65, 84]
def kPEXPIRE : Bytes := [80, 69, 88, 80, 73, 82, 69]
def kPEXPIREAT : Bytes := [80, 69, 88, 80, 73, 82, 69, 65, 84]
def kPERSIST : Bytes := [80, 69, 82, 83, 73, 83, 84]
def kGET : Bytes := [71, 69, 84]
def kSTRLEN : Bytes := [83, 84, 82, 76, 69, 78]
def kEXISTS : Bytes := [69, 88, 73, 83, 84, 83]
def kTYPE : Bytes := [84, 89, 80, 69]
def kDUMP : Bytes := [68, 85, 77, 80]

/-! ### value frames built by the converters (`NewLockCommandData…`) -/

/-- `NewLockCommandDataFromString(data, stage, type, flag, props)`; `key = some k` = the single KEY property. -/
def dataFrame (stage typ flag : Nat) (key : Option Bytes) (payload : Bytes) : Bytes :=
  match key with
  | none =>
    le 4 (payload.length + 2) ++ [((stage * 64) % 256 + typ % 64).toUInt8, flag.toUInt8] ++ payload
  | some k =>
    let propLen := k.length + 3
    le 4 (payload.length + 2 + propLen + 2) ++
      [((stage * 64) % 256 + typ % 64).toUInt8, (flag ||| C.LOCK_DATA_FLAG_CONTAINS_PROPERTY).toUInt8] ++
      le 2 propLen ++ [C.LOCK_DATA_PROPERTY_CODE_KEY.toUInt8] ++ le 2 k.length ++ k ++ payload

def dataSet (key : Option Bytes) (v : Bytes) : Bytes := dataFrame 0 C.LOCK_DATA_COMMAND_TYPE_SET 0 key v
def dataAppend (key : Option Bytes) (v : Bytes) : Bytes := dataFrame 0 C.LOCK_DATA_COMMAND_TYPE_APPEND 0 key v
def dataPush (v : Bytes) : Bytes := dataFrame 0 C.LOCK_DATA_COMMAND_TYPE_PUSH 0 none v
def dataUnset : Bytes := [2, 0, 0, 0, 1, 0]
/-- without property: the literal frame; with property: through `NewLockCommandDataFromBytes` — same bytes -/
def dataIncr (key : Option Bytes) (v : Int) : Bytes :=
  dataFrame 0 C.LOCK_DATA_COMMAND_TYPE_INCR C.LOCK_DATA_FLAG_VALUE_TYPE_NUMBER key (le 8 (u64 v))
def dataShift (v : Int) : Bytes := [6, 0, 0, 0, 4, 1] ++ le 4 (u32 v)
def dataPop (v : Int) : Bytes := [6, 0, 0, 0, 8, 1] ++ le 4 (u32 v)

/-- checked `args[i]` -/
def idx (args : List Bytes) (i : Nat) : Option Bytes := args[i]?

/-! ### LOCK / UNLOCK (`ConvertTextLockAndUnLockCommand`) -/

def initHdr (ctx : Ctx) : Hdr := { dbId := ctx.dbId }

/-- seconds rule used by EX / TX / SETEX / EXPIRE: `(value, minuteFlag)` -/
def secRule (x : Int) : Nat × Bool :=
  if x > 65535 then
    (if x % 60 = 0 then u16 (x / 60) else u16 ((u16 (x / 60) : Int) + 1), true)
  else (u16 x, false)

/-- milliseconds rule; `k1000 = true` uses `(x/1000)%60 == 0` (PTX, PSETEX, PEXPIRE), `false` uses `x%60000 == 0` (PX).
Result `(value, minuteFlag, milliFlag)`. -/
def msRule (k1000 : Bool) (x : Int) : Nat × Bool × Bool :=
  if x > 65535000 then
    let exact := if k1000 then (x / 1000) % 60 = 0 else x % 60000 = 0
    (if exact then u16 (x / 60000) else u16 ((u16 (x / 60000) : Int) + 1), true, false)
  else if x ≤ 3000 then (u16 x, false, true)
  else (u16 x, false, false)

def orIf (f : Nat) (b : Bool) (bit : Nat) : Nat := if b then f ||| bit else f

mutual
/-- the `for i := 2; i < len(args); i += 2` loop over the remaining arguments `rest = args[i:]` -/
def lockLoop (fuel : Nat) (ctx : Ctx) (name : Bytes) (rest : List Bytes) (c : LockCmd) (hasId : Bool) : Conv :=
  match fuel with
  | 0 => .panic
  | fuel + 1 =>
  match rest with
  | [] =>
    if hasId then .ok c
    else if name = kLOCK then .ok { c with hdr := { c.hdr with lockId := .req } }
    else .ok { c with hdr := { c.hdr with lockId := .proto } }
  | [_] => .panic  -- args[i+1] out of range (unreachable: the length is even)
  | kw :: v :: rest' =>
    let k := upper kw
    let next (c' : LockCmd) (h : Bool) : Conv := lockLoop fuel ctx name rest' c' h
    let withData (d : Bytes) : Conv :=
      next { hdr := { c.hdr with flag := c.hdr.flag ||| C.LOCK_FLAG_CONTAINS_DATA }, data := .raw d } hasId
    if k = kLOCK_ID then next { c with hdr := { c.hdr with lockId := .bytes (convertArgId2LockId ctx.md5 v) } } true
    else if k = kFLAG then
      match atoi v with
      | none => .err "FLAG"
      | some x => next { c with hdr := { c.hdr with flag := u8 x } } hasId
    else if k = kTIMEOUT then
      match atoi v with
      | none => .err "TIMEOUT"
      | some x => next { c with hdr := { c.hdr with timeout := u16 x, timeoutFlag := u16 (x / 65536) } } hasId
    else if k = kEXPRIED then
      match atoi v with
      | none => .err "EXPRIED"
      | some x => next { c with hdr := { c.hdr with expried := u16 x, expriedFlag := u16 (x / 65536) } } hasId
    else if k = kCOUNT then
      match atoi v with
      | none => .err "COUNT"
      | some x => next { c with hdr := { c.hdr with count := if x > 0 then u16 ((u16 x : Int) - 1) else u16 x } } hasId
    else if k = kRCOUNT then
      match atoi v with
      | none => .err "RCOUNT"
      | some x => next { c with hdr := { c.hdr with rcount := if x > 0 then u8 ((u8 x : Int) - 1) else u8 x } } hasId
    else if k = kWILL then
      match atoi v with
      | none => .err "WILL"
      | some x =>
        if x > 0 ∧ name ≠ kPUSH then next { c with hdr := { c.hdr with commandType := (c.hdr.commandType + 7) % 256 } } hasId
        else next c hasId
    else if k = kSET then withData (dataSet none v)
    else if k = kUNSET then withData dataUnset
    else if k = kINCR then
      match atoi v with
      | none => .err "INCR"
      | some x => withData (dataIncr none x)
    else if k = kAPPEND then withData (dataAppend none v)
    else if k = kSHIFT then
      match atoi v with
      | none => .err "SHIFT"
      | some x => withData (dataShift x)
    else if k = kEXECUTE then
      let uv := upper v
      let stage := if uv = kUNLOCK then C.LOCK_DATA_STAGE_UNLOCK else if uv = kTIMEOUT then C.LOCK_DATA_STAGE_TIMEOUT
        else if uv = kEXPRIED then C.LOCK_DATA_STAGE_EXPRIED else C.LOCK_DATA_STAGE_CURRENT
      match lockConv fuel ctx rest' with
      | .ok sub =>
        -- NewLockCommandDataExecuteData sets CONTAINS_DATA on the sub-command when it carries data
        let subHdr := match sub.data with
          | .none => sub.hdr
          | _ => { sub.hdr with flag := sub.hdr.flag ||| C.LOCK_FLAG_CONTAINS_DATA }
        next { hdr := { c.hdr with flag := c.hdr.flag ||| C.LOCK_FLAG_CONTAINS_DATA }, data := .exec stage subHdr sub.data } hasId
      | r => r
    else if k = kPUSH then withData (dataPush v)
    else if k = kPOP then
      match atoi v with
      | none => .err "SHIFT"
      | some x => withData (dataPop x)
    else next c hasId

def lockConv (fuel : Nat) (ctx : Ctx) (args : List Bytes) : Conv :=
  match fuel with
  | 0 => .panic
  | fuel + 1 =>
  if args.length < 2 ∨ args.length % 2 ≠ 0 then .err "Args_Count"
  else
    match idx args 0, idx args 1 with
    | some a0, some a1 =>
      let name := upper a0
      let h : Hdr := { initHdr ctx with
        commandType := if name = kUNLOCK then C.COMMAND_UNLOCK else C.COMMAND_LOCK,
        lockKey := convertArgId2LockId ctx.md5 a1, timeout := 15, expried := 120 }
      lockLoop fuel ctx name (args.drop 2) { hdr := h } false
    | _, _ => .panic
end

/-- `ConvertTextLockAndUnLockCommand` -/
def convertLock (ctx : Ctx) (args : List Bytes) : Conv := lockConv (args.length + 1) ctx args

/-! ### `ConvertArgs2Flag` -/

inductive FlagOut
  | ok (h : Hdr)
  | err (cls : String)
  | panic
  deriving DecidableEq, Repr

/-- `for i := 0; i < len(args); i++ { switch upper(args[i]) … }`; `fuel` bounds the iterations. -/
def argsFlag (fuel : Nat) (tail : List Bytes) (i : Nat) (h : Hdr) : FlagOut :=
  match fuel with
  | 0 => .ok h
  | fuel + 1 =>
    match idx tail i with
    | none => .ok h            -- i ≥ len: loop exit
    | some kw =>
      let k := upper kw
      let valued (cls : String) (f : Int → Hdr) : FlagOut :=
        if i + 1 ≥ tail.length then .err "Args_Count"
        else match idx tail (i + 1) with
          | none => .panic                                   -- args[i+1] out of range
          | some v =>
            match atoi v with
            | none => .err cls
            | some x => argsFlag fuel tail (i + 2) (f x)
      if k = kEX then
        valued "EX_Value" (fun x => let r := secRule x
          { h with expried := r.1, expriedFlag := orIf h.expriedFlag r.2 C.EXPRIED_FLAG_MINUTE_TIME })
      else if k = kPX then
        valued "PX_Value" (fun x => let r := msRule false x
          { h with expried := r.1, expriedFlag := orIf (orIf h.expriedFlag r.2.1 C.EXPRIED_FLAG_MINUTE_TIME) r.2.2 C.EXPRIED_FLAG_MILLISECOND_TIME })
      else if k = kTX then
        valued "TX_Value" (fun x => let r := secRule x
          { h with timeout := r.1, timeoutFlag := orIf h.timeoutFlag r.2 C.TIMEOUT_FLAG_MINUTE_TIME })
      else if k = kPTX then
        valued "TX_Value" (fun x => let r := msRule true x
          { h with timeout := r.1, timeoutFlag := orIf (orIf h.timeoutFlag r.2.1 C.TIMEOUT_FLAG_MINUTE_TIME) r.2.2 C.TIMEOUT_FLAG_MILLISECOND_TIME })
      else if k = kNX then argsFlag fuel tail (i + 1) { h with flag := C.LOCK_FLAG_CONTAINS_DATA, lockId := .gen }
      else if k = kXX then argsFlag fuel tail (i + 1) { h with timeoutFlag := h.timeoutFlag ||| C.TIMEOUT_FLAG_LOCK_WAIT_WHEN_UNLOCK }
      else if k = kACK then argsFlag fuel tail (i + 1) { h with timeoutFlag := h.timeoutFlag ||| C.TIMEOUT_FLAG_REQUIRE_ACKED }
      else if k = kNAOF then argsFlag fuel tail (i + 1) { h with expriedFlag := h.expriedFlag ||| C.EXPRIED_FLAG_UNLIMITED_AOF_TIME }
      else argsFlag fuel tail (i + 1) h

def convertArgs2Flag (h : Hdr) (tail : List Bytes) : FlagOut := argsFlag (tail.length + 1) tail 0 h

/-! ### the Redis-style converters -/

def unlimitedFlags : Nat :=
  C.EXPRIED_FLAG_UNLIMITED_EXPRIED_TIME ||| C.EXPRIED_FLAG_ZEOR_AOF_TIME ||| C.EXPRIED_FLAG_UPDATE_NO_RESET_EXPRIED_CHECKED_COUNT

/-- the closing `if ExpriedFlag&UNLIMITED_AOF_TIME != 0 {…} else {…}` -/
def aofFlags (h : Hdr) : Hdr :=
  if h.expriedFlag &&& C.EXPRIED_FLAG_UNLIMITED_AOF_TIME ≠ 0 then
    { h with expriedFlag := h.expriedFlag ||| C.EXPRIED_FLAG_UPDATE_NO_RESET_EXPRIED_CHECKED_COUNT }
  else { h with expriedFlag := h.expriedFlag ||| C.EXPRIED_FLAG_ZEOR_AOF_TIME ||| C.EXPRIED_FLAG_UPDATE_NO_RESET_EXPRIED_CHECKED_COUNT }

def defaultExpried (dflt : Nat) (h : Hdr) : Hdr :=
  if h.expried = 0 ∧ h.expriedFlag = 0 then { h with expried := dflt, expriedFlag := unlimitedFlags } else aofFlags h

/-- `if len(args) > n { ConvertArgs2Flag(args[n:]) }` -/
def withTail (args : List Bytes) (n : Nat) (h : Hdr) (k : Hdr → Conv) : Conv :=
  if args.length > n then
    match convertArgs2Flag h (args.drop n) with
    | .ok h' => k h'
    | .err e => .err e
    | .panic => .panic
  else k h

def keyHdr (ctx : Ctx) (typ flag : Nat) (a1 : Bytes) : Hdr :=
  let key := convertArgId2LockId ctx.md5 a1
  { initHdr ctx with commandType := typ, flag := flag, lockKey := key, lockId := .bytes key }

def convDel (ctx : Ctx) (args : List Bytes) : Conv :=
  if args.length < 2 then .err "Args_Count" else
  match idx args 1 with
  | some a1 => .ok { hdr := keyHdr ctx C.COMMAND_UNLOCK C.UNLOCK_FLAG_UNLOCK_FIRST_LOCK_WHEN_UNLOCKED a1 }
  | none => .panic

def convRead (ctx : Ctx) (args : List Bytes) : Conv :=
  if args.length < 2 then .err "Args_Count" else
  match idx args 1 with
  | some a1 => .ok { hdr := keyHdr ctx C.COMMAND_LOCK C.LOCK_FLAG_SHOW_WHEN_LOCKED a1 }
  | none => .panic

def convSet (ctx : Ctx) (args : List Bytes) : Conv :=
  if args.length < 3 then .err "Args_Count" else
  match idx args 1, idx args 2 with
  | some a1, some a2 =>
    let h := keyHdr ctx C.COMMAND_LOCK (C.LOCK_FLAG_UPDATE_WHEN_LOCKED ||| C.LOCK_FLAG_CONTAINS_DATA) a1
    withTail args 3 h (fun h =>
      let h := if h.flag &&& C.LOCK_FLAG_UPDATE_WHEN_LOCKED = 0 ∧ h.timeout = 0 ∧ h.timeoutFlag = 0
        then { h with timeout := ctx.timeout } else h
      .ok { hdr := defaultExpried 0x7fff h, data := .raw (dataSet (some a1) a2) })
  | _, _ => .panic

def convSetNX (ctx : Ctx) (args : List Bytes) : Conv :=
  if args.length < 3 then .err "Args_Count" else
  match idx args 1, idx args 2 with
  | some a1, some a2 =>
    let h := { keyHdr ctx C.COMMAND_LOCK C.LOCK_FLAG_CONTAINS_DATA a1 with lockId := .gen, timeout := ctx.timeout }
    withTail args 3 h (fun h => .ok { hdr := defaultExpried 0xffff h, data := .raw (dataSet (some a1) a2) })
  | _, _ => .panic

def convSetEX (ctx : Ctx) (args : List Bytes) : Conv :=
  if args.length < 4 then .err "Args_Count" else
  match idx args 0, idx args 1, idx args 2 with
  | some a0, some a1, some a2 =>
    match idx args 3 with
    | none => .panic                                      -- args[3] (unreachable: len(args) ≥ 4)
    | some a3 =>
      let h := keyHdr ctx C.COMMAND_LOCK (C.LOCK_FLAG_UPDATE_WHEN_LOCKED ||| C.LOCK_FLAG_CONTAINS_DATA) a1
      match atoi a2 with
      | none => .err "EX_Value"
      | some x =>
        let h := if upper a0 = kPSETEX then
            let r := msRule true x
            { h with expried := r.1, expriedFlag := orIf (orIf h.expriedFlag r.2.1 C.EXPRIED_FLAG_MINUTE_TIME) r.2.2 C.EXPRIED_FLAG_MILLISECOND_TIME }
          else
            let r := secRule x
            { h with expried := r.1, expriedFlag := orIf h.expriedFlag r.2 C.EXPRIED_FLAG_MINUTE_TIME }
        withTail args 4 h (fun h => .ok { hdr := aofFlags h, data := .raw (dataSet (some a1) a3) })
  | _, _, _ => .panic

def convAppend (ctx : Ctx) (args : List Bytes) : Conv :=
  if args.length < 3 then .err "Args_Count" else
  match idx args 1, idx args 2 with
  | some a1, some a2 =>
    let h := keyHdr ctx C.COMMAND_LOCK (C.LOCK_FLAG_UPDATE_WHEN_LOCKED ||| C.LOCK_FLAG_CONTAINS_DATA) a1
    withTail args 3 h (fun h => .ok { hdr := defaultExpried 0xffff h, data := .raw (dataAppend (some a1) a2) })
  | _, _ => .panic

/-- INCR/INCRBY (`neg = false`) and DECR/DECRBY (`neg = true`) -/
def convIncr (neg : Bool) (ctx : Ctx) (args : List Bytes) : Conv :=
  if args.length < 2 then .err "Args_Count" else
  match idx args 1 with
  | none => .panic
  | some a1 =>
    let h := keyHdr ctx C.COMMAND_LOCK (C.LOCK_FLAG_UPDATE_WHEN_LOCKED ||| C.LOCK_FLAG_CONTAINS_DATA) a1
    let fin (v : Int) (index : Nat) : Conv :=
      withTail args index h (fun h => .ok { hdr := defaultExpried 0xffff h, data := .raw (dataIncr (some a1) v) })
    if args.length > 2 then
      match idx args 2 with
      | none => .panic
      | some a2 =>
        match atoi a2 with
        | none => .err "Increment_Value"
        | some v => fin (if neg then -v else v) 4          -- sic: index starts at 3
    else fin (if neg then -1 else 1) 3

/-- EXPIRE / PEXPIRE / PERSIST (`PEXPIREAT` and the unregistered `EXPIREAT` depend on the wall clock: `now`). -/
def convExpire (ctx : Ctx) (now : Int) (args : List Bytes) : Conv :=
  if args.length < 3 then .err "Args_Count" else
  match idx args 0, idx args 1, idx args 2 with
  | some a0, some a1, some a2 =>
    let h := keyHdr ctx C.COMMAND_LOCK C.LOCK_FLAG_UPDATE_WHEN_LOCKED a1
    match atoi a2 with
    | none => .err "EX_Value"
    | some x =>
      let n := upper a0
      let sec (x : Int) : Hdr := let r := secRule x
        { h with expried := r.1, expriedFlag := orIf h.expriedFlag r.2 C.EXPRIED_FLAG_MINUTE_TIME }
      let ms (x : Int) : Hdr := let r := msRule true x
        { h with expried := r.1, expriedFlag := orIf (orIf h.expriedFlag r.2.1 C.EXPRIED_FLAG_MINUTE_TIME) r.2.2 C.EXPRIED_FLAG_MILLISECOND_TIME }
      let h := if n = kEXPIRE then sec x
        else if n = kEXPIREAT then sec (x - now)
        else if n = kPEXPIRE then ms x
        else if n = kPEXPIREAT then ms (x - now)
        else if n = kPERSIST then { h with expried := 0x7fff, expriedFlag := C.EXPRIED_FLAG_UNLIMITED_EXPRIED_TIME }
        else h
      .ok { hdr := { h with expriedFlag := h.expriedFlag ||| C.EXPRIED_FLAG_ZEOR_AOF_TIME ||| C.EXPRIED_FLAG_UPDATE_NO_RESET_EXPRIED_CHECKED_COUNT } }
  | _, _, _ => .panic

/-- `ConvertTextKeyOperateValueCommand`: registry lookup on `upper(args[0])`, then the handler. -/
def convertKeyOp (ctx : Ctx) (now : Int) (args : List Bytes) : Conv :=
  match idx args 0 with
  | none => .panic
  | some a0 =>
    let n := upper a0
    if n = kLOCK ∨ n = kUNLOCK then convertLock ctx args
    else if n = kDEL then convDel ctx args
    else if n = kSET ∨ n = kGETSET then convSet ctx args
    else if n = kSETEX ∨ n = kPSETEX then convSetEX ctx args
    else if n = kSETNX then convSetNX ctx args
    else if n = kAPPEND then convAppend ctx args
    else if n = kINCR ∨ n = kINCRBY then convIncr false ctx args
    else if n = kDECR ∨ n = kDECRBY then convIncr true ctx args
    else if n = kEXPIRE ∨ n = kPEXPIREAT ∨ n = kPEXPIRE ∨ n = kPERSIST then convExpire ctx now args
    else if n = kGET ∨ n = kSTRLEN ∨ n = kEXISTS ∨ n = kTYPE ∨ n = kDUMP then convRead ctx args
    else .err "unknown_command"

/-! ## result renderers -/

structure ResultCmd where
  result : Nat
  flag : Nat := 0
  lockId : Bytes := List.replicate 16 0
  lcount : Nat := 0
  count : Nat := 0
  lrcount : Nat := 0
  rcount : Nat := 0
  /-- `Data.GetStringValue()` of a plain string value; `none` = nil `Data` -/
  data : Option Bytes := none
  deriving DecidableEq, Repr

inductive Render
  | ok (b : Bytes)
  | panic
  deriving DecidableEq, Repr

def Render.isPanic : Render → Bool
  | .panic => true
  | _ => false

def strBytes (s : String) : Bytes := s.toUTF8.toList

def hexDigitB (n : Nat) : UInt8 := if n < 10 then (48 + n).toUInt8 else (87 + n).toUInt8
/-- `fmt.Sprintf("%x", [16]byte)` -/
def hexLower (b : Bytes) : Bytes := b.flatMap (fun x => [hexDigitB (x.toNat / 16), hexDigitB (x.toNat % 16)])

def kLCOUNT : Bytes := [76, 67, 79, 85, 78, 84]
def kLRCOUNT : Bytes := [76, 82, 67, 79, 85, 78, 84]
def kDATA : Bytes := [68, 65, 84, 65]

/-- `ERROR_MSG[result]` — a checked index into the regenerated table -/
def errorMsg (result : Nat) : Option String := C.ERROR_MSG[result]?

/-- `TextCommandConverter.WriteTextLockAndUnLockCommandResult` (the bytes handed to `stream.WriteBytes`,
both writes concatenated).  COUNT and RCOUNT are rendered `+1` (uint16 / uint8 wrap-around). -/
def renderLockResult (r : ResultCmd) : Render :=
  match errorMsg r.result with
  | none => .panic
  | some msg =>
    let hasData := r.flag &&& C.UNLOCK_FLAG_CONTAINS_DATA ≠ 0
    let head := (if hasData then 14 else 12 : Nat)
    let fields : List Bytes := [natToDec r.result, strBytes msg, kLOCK_ID, hexLower r.lockId, kLCOUNT, natToDec r.lcount,
      kCOUNT, natToDec ((r.count + 1) % 65536), kLRCOUNT, natToDec r.lrcount, kRCOUNT, natToDec ((r.rcount + 1) % 256)]
    let main := 42 :: (natToDec head ++ (crlf ++ bulks fields))
    if hasData then
      match r.data with
      | none => .panic                      -- nil `Data` dereferenced
      | some d => .ok (main ++ bulk kDATA ++ bulk d)
    else .ok main

/-- `TextServerProtocol.WriteCommand` / `ProcessBuild` (server/protocol.go): `BuildResponse(true, "", results)`;
COUNT and RCOUNT are rendered as they are (no `+1`). -/
def renderServerResult (r : ResultCmd) : Render :=
  match errorMsg r.result with
  | none => .panic
  | some msg =>
    let fields : List Bytes := [natToDec r.result, strBytes msg, kLOCK_ID, hexLower r.lockId, kLCOUNT, natToDec r.lcount,
      kCOUNT, natToDec r.count, kLRCOUNT, natToDec r.lrcount, kRCOUNT, natToDec r.rcount]
    if r.flag &&& C.LOCK_FLAG_CONTAINS_DATA ≠ 0 then
      match r.data with
      | none => .panic
      | some d => .ok (buildResponse true [] (fields ++ [kDATA, d]))
    else .ok (buildResponse true [] fields)

end Slock.Text
