import Slock.Gen.Consts
/-!
Checked-access model of the value READERS of `protocol.LockResultCommandData` (protocol/command.go) that the text reply
writers and the KEYS/SCAN handlers apply to stored values: `GetValueOffset`, `GetStringValue`, `GetArrayValue`,
`GetKVValue`, `GetDataProperties`, `GetDataProperty` — after the repairs "fix: GetArrayValue/GetKVValue stop at an
element whose length prefix points past the value" and "fix: GetDataProperty/GetDataProperties stay inside the property
section".  Every Go index `Data[k]` is `d[k]?`, every slice `Data[a:b]` is `sliceC`; failure is the outcome `panic`.
Core Lean only.
-/
namespace Slock.TextV
open Slock.Gen

abbrev Bytes := List UInt8

inductive R (α : Type) where
  | ok (v : α)
  | panic
  deriving Repr

def R.isPanic {α : Type} : R α → Bool
  | .panic => true
  | .ok _ => false

/-- `Data[lo:hi]` -/
def sliceC (d : Bytes) (lo hi : Nat) : Option Bytes :=
  if lo ≤ hi ∧ hi ≤ d.length then some ((d.drop lo).take (hi - lo)) else none

/-- `uint32(Data[i]) | uint32(Data[i+1])<<8 | uint32(Data[i+2])<<16 | uint32(Data[i+3])<<24` -/
def u32At (d : Bytes) (i : Nat) : Option Nat :=
  match d[i]?, d[i + 1]?, d[i + 2]?, d[i + 3]? with
  | some a, some b, some c, some e => some (a.toNat + b.toNat * 256 + c.toNat * 65536 + e.toNat * 16777216)
  | _, _, _, _ => none

/-- `int(Data[i]) | int(Data[i+1])<<8` -/
def u16At (d : Bytes) (i : Nat) : Option Nat :=
  match d[i]?, d[i + 1]? with
  | some a, some b => some (a.toNat + b.toNat * 256)
  | _, _ => none

/-- the ingress check `NewLockCommandDataFromOriginBytes`: what every stored value frame has passed -/
def ingressOK (d : Bytes) : Bool :=
  decide (6 ≤ d.length) &&
    (match d[5]? with
     | some fl =>
       if fl.toNat &&& C.LOCK_DATA_FLAG_CONTAINS_PROPERTY ≠ 0 then
         decide (8 ≤ d.length) && (match u16At d 6 with | some pl => decide (pl + 8 ≤ d.length) | none => false)
       else true
     | none => false)

/-- `GetValueOffset` -/
def valueOffset (d : Bytes) (fl : Nat) : R Nat :=
  if fl &&& C.LOCK_DATA_FLAG_CONTAINS_PROPERTY ≠ 0 then
    match u16At d 6 with
    | some pl => .ok (pl + 8)
    | none => .panic
  else .ok 6

/-- the struct built by `NewLockResultCommandDataFromOriginBytes`: `(CommandType, DataFlag)` = `(data[4] & 0x3f, data[5])` -/
def header (d : Bytes) : Option (Nat × Nat) :=
  match d[4]?, d[5]? with
  | some t, some fl => some (t.toNat % 64, fl.toNat)
  | _, _ => none

/-- `GetStringValue` / `GetBytesValue` -/
def getString (d : Bytes) : R Bytes :=
  match header d with
  | none => .panic
  | some (t, fl) =>
    if t = C.LOCK_DATA_COMMAND_TYPE_UNSET then .ok []
    else match valueOffset d fl with
      | .panic => .panic
      | .ok off =>
        match sliceC d off d.length with
        | some s => .ok s
        | none => .panic

def arrayLoop (d : Bytes) : Nat → Nat → List Bytes → R (List Bytes)
  | 0, _, acc => .ok acc
  | f + 1, index, acc =>
    -- `for index+4 <= len(self.Data)`: zero-length elements are ordinary elements (repaired in /repo, e6b8126)
    if index + 4 ≤ d.length then
      match u32At d index with
      | none => .panic
      | some vl =>
        if index + 4 + vl > d.length then .ok acc
        else match sliceC d (index + 4) (index + 4 + vl) with
          | none => .panic
          | some s => arrayLoop d f (index + vl + 4) (acc ++ [s])
    else .ok acc

/-- `GetArrayValue` (`none` = the Go `nil` result) -/
def getArray (d : Bytes) : R (Option (List Bytes)) :=
  match header d with
  | none => .panic
  | some (t, fl) =>
    if t = C.LOCK_DATA_COMMAND_TYPE_UNSET ∨ fl &&& C.LOCK_DATA_FLAG_VALUE_TYPE_ARRAY = 0 then .ok none
    else match valueOffset d fl with
      | .panic => .panic
      | .ok off =>
        match arrayLoop d d.length off [] with
        | .ok vs => .ok (some vs)
        | .panic => .panic

def kvLoop (d : Bytes) : Nat → Nat → List (Bytes × Bytes) → R (List (Bytes × Bytes))
  | 0, _, acc => .ok acc
  | f + 1, index, acc =>
    if index + 4 < d.length then
      match u32At d index with
      | none => .panic
      | some kl =>
        if kl = 0 then kvLoop d f (index + 4) acc
        else if index + 8 + kl > d.length then .ok acc
        else match sliceC d (index + 4) (index + 4 + kl) with
          | none => .panic
          | some key =>
            let index := index + kl + 4
            match u32At d index with
            | none => .panic
            | some vl =>
              if vl = 0 then kvLoop d f (index + 4) acc
              else if index + 4 + vl > d.length then .ok acc
              else match sliceC d (index + 4) (index + 4 + vl) with
                | none => .panic
                | some v => kvLoop d f (index + vl + 4) (acc ++ [(key, v)])
    else .ok acc

/-- `GetKVValue` as the list of assignments `values[key] = v` in order (`none` = nil) -/
def getKV (d : Bytes) : R (Option (List (Bytes × Bytes))) :=
  match header d with
  | none => .panic
  | some (t, fl) =>
    if t = C.LOCK_DATA_COMMAND_TYPE_UNSET ∨ fl &&& C.LOCK_DATA_FLAG_VALUE_TYPE_KV = 0 then .ok none
    else match valueOffset d fl with
      | .panic => .panic
      | .ok off =>
        match kvLoop d d.length off [] with
        | .ok vs => .ok (some vs)
        | .panic => .panic

def propLoop (d : Bytes) (plen : Nat) : Nat → Nat → List (Nat × Bytes) → R (List (Nat × Bytes))
  | 0, _, acc => .ok acc
  | f + 1, index, acc =>
    if index + 3 ≤ plen then
      match d[8 + index]?, u16At d (9 + index) with
      | some code, some vl =>
        if index + 3 + vl > plen then .ok acc
        else if vl > 0 then
          match sliceC d (11 + index) (11 + index + vl) with
          | none => .panic
          | some v => propLoop d plen f (index + vl + 3) (acc ++ [(code.toNat, v)])
        else propLoop d plen f (index + vl + 3) (acc ++ [(code.toNat, [])])
      | _, _ => .panic
    else .ok acc

/-- `GetDataProperties` (`none` = nil) -/
def getProps (d : Bytes) : R (Option (List (Nat × Bytes))) :=
  match header d with
  | none => .panic
  | some (_, fl) =>
    if fl &&& C.LOCK_DATA_FLAG_CONTAINS_PROPERTY = 0 then .ok none
    else if d.length < 8 then .ok none
    else match u16At d 6 with
      | none => .panic
      | some pl =>
        let plen := if pl + 8 > d.length then d.length - 8 else pl
        match propLoop d plen (d.length + 1) 0 [] with
        | .ok ps => .ok (some ps)
        | .panic => .panic

/-- `GetDataProperty(code)`: the first entry with that code -/
def getProp (d : Bytes) (code : Nat) : R (Option Bytes) :=
  match getProps d with
  | .panic => .panic
  | .ok none => .ok none
  | .ok (some ps) => .ok ((ps.find? (fun p => p.1 == code)).map (·.2))

end Slock.TextV
