import Slock.Gen.Kernels
/-
M-AOF: the append-only log of server/aof.go — file framing, the READER exactly as `AofFile.Open/ReadHeader/ReadLock/
ReadLockData` and `Aof.LoadAofFile/LoadAofFiles` behave on short reads (Go's `bufio.Reader.Read` included), the WRITER's
flush order, the append-mode reopen, `FindAofFiles`, the compaction as an ordered list of file-system mutations, and the
two deadline ↔ remaining-lifetime conversions. Core Lean only (the driver links this). Mirrors the code that exists, bugs
included.

Trust assumption about the OS: `os.File.Read` on a regular file returns `min(len(p), remaining)` bytes, and `(0, io.EOF)`
only at the end; writes reach a file in program order (a crash leaves a prefix of the completed writes, the last one cut).
-/
namespace Slock.Aof

abbrev Bytes := List UInt8

/-- `"SLOCKAOF"`, version 1 (LE16), extra header length 0 (LE16) — `AofFile.WriteHeader`. -/
def magic : Bytes := [0x53, 0x4c, 0x4f, 0x43, 0x4b, 0x41, 0x4f, 0x46]
def headerBytes : Bytes := magic ++ [1, 0, 0, 0]

def zeros (n : Nat) : Bytes := List.replicate n 0

def byteAt (b : Bytes) (i : Nat) : Nat := (b.getD i 0).toNat

def le16 (b : Bytes) (o : Nat) : Nat := byteAt b o + 256 * byteAt b (o + 1)

def leNat : Bytes → Nat
  | [] => 0
  | x :: xs => x.toNat + 256 * leNat xs

def natLE : Nat → Nat → Bytes
  | 0, _ => []
  | w + 1, n => (n % 256).toUInt8 :: natLE w (n / 256)

/-! ## Go's `bufio.Reader` over a regular file -/

/-- `s` = the bytes of the file not yet returned to the caller; the first `avail` of them sit in bufio's buffer
(`b.buf[b.r:b.w]`), the others are still in the file. `cap = len(b.buf)`. -/
structure Rd where
  cap : Nat
  s : Bytes
  avail : Nat
  deriving Repr

/-- `NewAofFile`: `bufSize - bufSize % 64`. -/
def fileBufSize (cfg : Nat) : Nat := cfg - cfg % 64
/-- `bufio.NewReaderSize`: `max(size, 16)`. -/
def bufioCap (size : Nat) : Nat := max size 16

def Rd.open (cap : Nat) (file : Bytes) : Rd := { cap := cap, s := file, avail := 0 }

/-- One `Read(p)` with `len(p) = k`. `none` = `(0, io.EOF)`; `some (m, r')` = `(m, nil)`, the bytes are `r.s.take m`.
Branches in the order of bufio.go: empty `p`; (buffer empty: pending EOF / large read straight into `p` / ONE fill); copy. -/
def Rd.read (r : Rd) (k : Nat) : Option (Nat × Rd) :=
  if k = 0 then some (0, r)
  else if r.avail > 0 then
    let m := min k r.avail
    some (m, { r with s := r.s.drop m, avail := r.avail - m })
  else if r.s.length = 0 then none
  else if k ≥ r.cap then
    let m := min k r.s.length
    some (m, { r with s := r.s.drop m, avail := 0 })
  else
    let a := min r.cap r.s.length
    let m := min k a
    some (m, { r with s := r.s.drop m, avail := a - m })

inductive Err | eof | other
  deriving DecidableEq, Repr

/-- `AofFile.ReadHeader`. -/
def readHeader (r : Rd) : Except Err Rd :=
  match r.read 12 with
  | none => .error .eof
  | some (n, r1) =>
    let buf := r.s.take n
    if n ≠ 12 then .error .eof                     -- shorter than the header: "no records" (io.EOF)
    else if buf.take 8 ≠ magic then .error .other
    else if le16 buf 8 ≠ 1 then .error .other
    else
      let h := le16 buf 10
      if h > 0 then
        match r1.read h with
        | none => .error .eof
        | some (n2, r2) => if n2 ≠ h then .error .other else .ok r2
      else .ok r1

/-- `copy(old[off:], bs)` for `off + len(bs) ≤ len(old)`. -/
def overlay (old : Bytes) (off : Nat) (bs : Bytes) : Bytes :=
  old.take off ++ bs ++ old.drop (off + bs.length)

/-- `Read` in a loop until `k` bytes have arrived (`for n < k { Read(buf[n:]) }`); `none` = io.EOF. On success the bytes
are the first `k` of the stream. -/
def readFull : Nat → Rd → Nat → Option Rd
  | 0, r, k => if k = 0 then some r else none
  | f + 1, r, k =>
    if k = 0 then some r
    else match r.read k with
      | none => none
      | some (m, r') => readFull f r' (k - m)

inductive LockRes
  | eof (buf : Bytes)            -- `ReadLock` returns io.EOF (end of file at the first OR the second read); `buf` = buffer afterwards
  | lenErr                       -- "Lock Len error"
  | ok (buf : Bytes) (r : Rd)    -- `ReadLock` returns nil; `buf` = the (reused) 64-byte record buffer afterwards
  deriving Repr

/-- `AofFile.ReadLock`. `old` is the caller's record buffer: ONE buffer for all records of all files (`LoadAofFiles` allocates
it once). The rest of a record is read with `io.ReadFull`; a short rest (torn tail, wherever the bufio refills fall) is
reported as io.EOF like a clean end; the buffer keeps whatever bytes arrived. -/
def readLock (r : Rd) (old : Bytes) : LockRes :=
  match r.read 64 with
  | none => .eof old
  | some (n, r1) =>
    let b1 := overlay old 0 (r.s.take n)
    let lockLen := le16 b1 0
    if n = lockLen + 2 then .ok b1 r1
    else
      match readFull (64 - n) r1 (64 - n) with
      | none => .eof (overlay b1 n r1.s)
      | some r2 =>
        let b2 := overlay b1 n (r1.s.take (64 - n))
        if n + (64 - n) = lockLen + 2 then .ok b2 r2 else .lenErr

/-- `AofFile.ReadLockData`: 4-byte LE length, then the payload; the result keeps the length prefix. `none` = io.EOF. -/
def readLockData (d : Rd) : Option (Bytes × Rd) :=
  match readFull 4 d 4 with
  | none => none
  | some d1 =>
    let lenb := d.s.take 4
    let n := leNat lenb
    if n = 0 then some (lenb, d1)
    else match readFull n d1 n with
      | none => none
      | some d2 => some (lenb ++ d1.s.take n, d2)

/-! ## Record fields the loader looks at (offsets = the regenerated `Slock.Gen.aofLock` table; tied in Proofs/AofTie) -/

def commandTime (b : Bytes) : Nat := leNat ((b.drop 11).take 8)
def startTimeF (b : Bytes) : Nat := le16 b 53
def aofFlag (b : Bytes) : Nat := le16 b 55
def expriedTime (b : Bytes) : Nat := le16 b 57
def expriedFlag (b : Bytes) : Nat := le16 b 59

def AOF_FLAG_REWRITED : Nat := 0x0001
def AOF_FLAG_CONTAINS_DATA : Nat := 0x2000
def EXPRIED_FLAG_MINUTE_TIME : Nat := 0x0040
def EXPRIED_FLAG_MILLISECOND_TIME : Nat := 0x0400
def EXPRIED_FLAG_UNLIMITED_EXPRIED_TIME : Nat := 0x4000

def hasData (b : Bytes) : Bool := aofFlag b &&& AOF_FLAG_CONTAINS_DATA ≠ 0

/-- Go's `int64(x)` of a `uint64` expression (`x` taken mod 2^64). -/
def toI64 (x : Nat) : Int :=
  let y : Nat := x % 2 ^ 64
  if y < 2 ^ 63 then (y : Int) else (y : Int) - 2 ^ 64

/-- The expired-record filter of `LoadAofFile` (aof.go 1511–1523); `now` is the `expriedTime` argument. -/
def skippedAt (ef e ct : Nat) (now : Int) : Bool :=
  if ef &&& EXPRIED_FLAG_MILLISECOND_TIME ≠ 0 then toI64 (ct + e / 1000) ≤ now
  else if ef &&& EXPRIED_FLAG_MINUTE_TIME ≠ 0 then toI64 (ct + e * 60) ≤ now
  else if ef &&& EXPRIED_FLAG_UNLIMITED_EXPRIED_TIME = 0 then e > 0 ∧ toI64 (ct + e) ≤ now
  else false

def skipped (b : Bytes) (now : Int) : Bool := skippedAt (expriedFlag b) (expriedTime b) (commandTime b) now

/-! ## `LoadAofFile` / `LoadAofFiles` -/

/-- What the iterator callback receives: the 64 bytes of the record buffer and `lock.data`. -/
structure Rec where
  buf : Bytes
  data : Option Bytes
  deriving DecidableEq, Repr

/-- How `LoadAofFile` returns: `nil`, `io.EOF` (which `LoadAofFiles` turns into "stop quietly, skip the remaining files"),
or another error (start-up fails). -/
inductive Stop | fileEnd | eof | err
  deriving DecidableEq, Repr

structure FileImg where
  log : Bytes
  dat : Option Bytes     -- `none`: no `.dat` file
  deriving DecidableEq, Repr

def deliver (now : Int) (b : Bytes) (data : Option Bytes) (rest : List Rec × Stop × Bytes) : List Rec × Stop × Bytes :=
  if skipped b now then rest else (⟨b, data⟩ :: rest.1, rest.2)

/-- The loop of `LoadAofFile` (fuel: every successful `ReadLock` consumes at least one byte). Result: records handed to the
callback in order, how the function returned, and the record buffer afterwards (it is reused for the next file). -/
def loadLoop (now : Int) : Nat → Rd → Option Rd → Bytes → List Rec × Stop × Bytes
  | 0, _, _, buf => ([], .err, buf)
  | f + 1, r, d, buf =>
    match readLock r buf with
    | .eof b => ([], .fileEnd, b)
    | .lenErr => ([], .err, buf)
    | .ok b r' =>
      if hasData b then
        match d with
        | none => ([], .err, b)                       -- "data file error"
        | some dr =>
          match readLockData dr with
          | none => ([], .eof, b)
          | some (blob, dr') => deliver now b (some blob) (loadLoop now f r' (some dr') b)
      else deliver now b none (loadLoop now f r' d b)

def loadFile (cfg : Nat) (now : Int) (buf : Bytes) (img : FileImg) : List Rec × Stop × Bytes :=
  match readHeader (Rd.open (bufioCap (fileBufSize cfg)) img.log) with
  | .error .eof => ([], .eof, buf)
  | .error .other => ([], .err, buf)
  | .ok r =>
    loadLoop now (img.log.length + 2) r (img.dat.map (Rd.open (bufioCap (fileBufSize cfg * 64)))) buf

/-- `LoadAofFiles`: one record buffer for all files; `true` = returned nil. -/
def loadFilesFrom (cfg : Nat) (now : Int) : List FileImg → Bytes → List Rec × Bool
  | [], _ => ([], true)
  | f :: fs, buf =>
    match loadFile cfg now buf f with
    | (rs, .fileEnd, b') => let rest := loadFilesFrom cfg now fs b'; (rs ++ rest.1, rest.2)
    | (rs, .eof, _) => (rs, true)
    | (rs, .err, _) => (rs, false)

def loadFiles (cfg : Nat) (now : Int) (fs : List FileImg) : List Rec × Bool := loadFilesFrom cfg now fs (zeros 64)

/-- `load recordFile valueFile` for the newest append file alone. -/
def load (cfg : Nat) (now : Int) (rec dat : Bytes) : List Rec × Bool := loadFiles cfg now [⟨rec, some dat⟩]

/-! ## Writer -/

def encodeRecs (recs : List Rec) : Bytes := recs.flatMap (·.buf)
def encodeFile (recs : List Rec) : Bytes := headerBytes ++ encodeRecs recs
def encodeData (recs : List Rec) : Bytes := recs.flatMap (fun r => r.data.getD [])

/-- One `write(2)`: to the record file or to the value file. -/
inductive W | log (b : Bytes) | dat (b : Bytes)
  deriving DecidableEq, Repr

/-- `AofFile` in write mode: `wbuf[:windex]`, `dwbuf[:dwindex]`, `bufSize`. -/
structure Wr where
  size : Nat
  wbuf : Bytes
  dwbuf : Bytes
  deriving Repr

/-- `AofFile.Flush`: records first, then values. -/
def Wr.flush (w : Wr) : List W × Wr :=
  ((if w.wbuf.length > 0 then [W.log w.wbuf] else []) ++ (if w.dwbuf.length > 0 then [W.dat w.dwbuf] else []),
   { w with wbuf := [], dwbuf := [] })

/-- `AofFile.WriteLock` (buf already carries 62,0). -/
def Wr.writeLock (w : Wr) (buf : Bytes) : List W × Wr :=
  let w1 := { w with wbuf := w.wbuf ++ buf }
  if w1.wbuf.length ≥ w.size then w1.flush else ([], w1)

/-- `AofFile.WriteLockData`. -/
def Wr.writeLockData (w : Wr) (data : Bytes) : List W × Wr :=
  if w.wbuf.length > 0 then
    if data.length ≤ w.size * 64 - w.dwbuf.length then ([], { w with dwbuf := w.dwbuf ++ data })
    else let (ws, w') := w.flush; (ws ++ [W.dat data], w')
  else if w.dwbuf.length > 0 then
    let (ws, w') := w.flush; (ws ++ [W.dat data], w')
  else ([W.dat data], w)

def setLen (buf : Bytes) : Bytes := overlay buf 0 [62, 0]

/-- The `write` calls of: for each record `WriteLock`, `WriteLockData` if it has a value; grouped per call. -/
def Wr.writeAll : Wr → List Rec → List (List W) × Wr
  | w, [] => ([], w)
  | w, r :: rs =>
    let (a, w1) := w.writeLock (setLen r.buf)
    if hasData (setLen r.buf) then
      let (b, w2) := w1.writeLockData (r.data.getD [])
      let (rest, w3) := w2.writeAll rs
      (a :: b :: rest, w3)
    else
      let (rest, w2) := w1.writeAll rs
      (a :: rest, w2)

/-- `AofFile.Open` with `os.O_WRONLY` (append) on an existing record file: empty ⇒ header; 1–11 bytes ⇒ truncate + header;
length not 12 mod 64 ⇒ truncated back to the last record boundary; otherwise kept as is. The `.dat` file is never touched. -/
def openAppend (rec : Bytes) : Bytes :=
  if rec.length = 0 then headerBytes
  else if rec.length < 12 then headerBytes
  else if (rec.length - 12) % 64 ≠ 0 then rec.take (rec.length - (rec.length - 12) % 64)
  else rec

def applyW (img : Bytes × Bytes) : W → Bytes × Bytes
  | .log b => (img.1 ++ b, img.2)
  | .dat b => (img.1, img.2 ++ b)

/-- Where the START-UP load (`LoadAofFile` while `!inited`) cuts the two files: when a record carries the has-value flag and its
frame is missing / short at the end of the value file — the torn tail of the two-file write — the record file is truncated to
before that record (`size − 64`) and the value file to the frames read so far. `none` = nothing is cut. -/
def cutLoop : Nat → Rd → Option Rd → Bytes → Nat → Nat → Option (Nat × Nat)
  | 0, _, _, _, _, _ => none
  | f + 1, r, d, buf, off, doff =>
    match readLock r buf with
    | .eof _ => none
    | .lenErr => none
    | .ok b r' =>
      let off' := off + 2 + le16 b 0
      if hasData b then
        match d with
        | none => none
        | some dr =>
          match readLockData dr with
          | none => some (off' - 64, doff)
          | some (blob, dr') => cutLoop f r' (some dr') b off' (doff + blob.length)
      else cutLoop f r' d b off' doff

/-- The two files after the start-up has loaded them. -/
def startupFiles (cfg : Nat) (buf : Bytes) (rec : Bytes) (dat : Option Bytes) : Bytes × Option Bytes :=
  match readHeader (Rd.open (bufioCap (fileBufSize cfg)) rec) with
  | .error _ => (rec, dat)
  | .ok r =>
    match cutLoop (rec.length + 2) r (dat.map (Rd.open (bufioCap (fileBufSize cfg * 64)))) buf (12 + le16 rec 10) 0 with
    | none => (rec, dat)
    | some (o, d) => (rec.take o, dat.map (·.take d))

/-- A restart over an image (start-up load with reader buffer `rcfg`, then the append-mode reopen), `more` written through the
writer (buffer `cfg`), flush, close. -/
def appendAfterRestart (cfg rcfg : Nat) (rec : Bytes) (dat : Option Bytes) (more : List Rec) : Bytes × Bytes :=
  let (rec', dat') := startupFiles rcfg (zeros 64) rec dat
  let (groups, w) := Wr.writeAll ⟨fileBufSize cfg, [], []⟩ more
  let ws := groups.flatten ++ w.flush.1
  ws.foldl applyW (openAppend rec', dat'.getD [])

/-- `Flush` when the write of the record buffer fails (aof.go 517–519): both buffers are dropped. -/
def Wr.flushFail (w : Wr) : Wr := { w with wbuf := [], dwbuf := [] }

/-- A fresh file: `recsA` are written, the next `Flush` fails at the record write, then `recsB` are written, flushed, closed. -/
def failedFlushThenWrite (cfg : Nat) (recsA recsB : List Rec) : Bytes × Bytes :=
  let (g1, w1) := Wr.writeAll ⟨fileBufSize cfg, [], []⟩ recsA
  let (g2, w2) := Wr.writeAll w1.flushFail recsB
  (g1.flatten ++ g2.flatten ++ w2.flush.1).foldl applyW (headerBytes, [])

/-- The (record file size, value file size) after the open, after each writer call and after the final flush
(consecutive duplicates removed) — what the harness observes with `stat`. -/
def writeSizes (cfg : Nat) (recs : List Rec) : List (Nat × Nat) :=
  let (groups, w) := Wr.writeAll ⟨fileBufSize cfg, [], []⟩ recs
  let step := fun (acc : List (Nat × Nat) × (Bytes × Bytes)) (g : List W) =>
    let img := g.foldl applyW acc.2
    let p := (img.1.length, img.2.length)
    (if acc.1.getLast? = some p then acc.1 else acc.1 ++ [p], img)
  ((groups ++ [w.flush.1]).foldl step ([(12, 0)], (headerBytes, []))).1

/-! ## The two deadline ↔ remaining-lifetime conversions (C07, arithmetic part)

Times are seconds (`int64` in Go; `Int` here). `uint16(x)` of a non-negative `int64` is `x mod 65536`. -/

def u16 (x : Int) : Nat := (x % 65536).toNat

/-- lock.go `AddLock` / `GetOrNewLock`: deadline of a hold granted at `start`; `none` = unlimited (0x7fff…ffff). -/
def engineDeadline (ef e : Nat) (start : Int) : Option Int :=
  if ef &&& EXPRIED_FLAG_UNLIMITED_EXPRIED_TIME ≠ 0 then none
  else if ef &&& EXPRIED_FLAG_MILLISECOND_TIME = 0 then
    if ef &&& EXPRIED_FLAG_MINUTE_TIME ≠ 0 then some (start + (e : Int) * 60 + 1) else some (start + e + 1)
  else some (start + (e / 1000 : Nat) + 1)

/-- `AofChannel.Push`: the record's command time = min(current second, deadline). `d = none`: unlimited. -/
def pushCommandTime (cur : Int) (d : Option Int) : Int :=
  match d with
  | none => cur
  | some d => if d > cur then cur else d

/-- `AofChannel.Push`: age at write, saturating at 0xffff (a negative difference wraps in uint64, hence saturates too). -/
def pushAge (ct start : Int) : Nat :=
  let a := ct - start
  if a < 0 ∨ a ≥ 0xffff then 0xffff else a.toNat

/-- `Aof.GetAofLockExpriedTime`: the remaining lifetime stored in the record (saturating at 0xffff). -/
def writeRemaining (ef e : Nat) (d : Option Int) (ct : Int) : Nat :=
  if ef &&& EXPRIED_FLAG_UNLIMITED_EXPRIED_TIME ≠ 0 then e
  else if ef &&& EXPRIED_FLAG_MILLISECOND_TIME ≠ 0 then e
  else
    let dl := d.getD 0x7fffffffffffffff
    let secs := dl - ct
    if ef &&& EXPRIED_FLAG_MINUTE_TIME ≠ 0 then
      if secs ≥ 60 ∧ secs % 60 = 0 then u16 (secs / 60)
      else if secs > 0 then (if secs / 60 ≥ 0xffff then 0xffff else (u16 (secs / 60) + 1) % 65536)
      else 0
    else if dl > 0 then
      if secs > 0 then (if secs > 0xffff then 0xffff else u16 secs) else 0
    else e

/-- `Aof.GetLockCommandExpriedTime`: the `Expried` of the command replayed at `now`. -/
def loadRemaining (ef e : Nat) (ct now : Int) : Nat :=
  if ef &&& EXPRIED_FLAG_UNLIMITED_EXPRIED_TIME ≠ 0 then e
  else if ef &&& EXPRIED_FLAG_MILLISECOND_TIME ≠ 0 then e
  else if ef &&& EXPRIED_FLAG_MINUTE_TIME ≠ 0 then
    let el := now - ct
    if el ≥ 0 then
      let mins := if el < 60 ∨ el % 60 ≠ 0 then el / 60 + 1 else el / 60
      if e > u16 mins then e - u16 mins else 0
    else e
  else if e > 0 then
    let el := now - ct
    if el ≥ 0 then (if e > u16 el then e - u16 el else 0) else e
  else e

/-- Journal a hold (unit flags `ef`, `Expried = e`, granted at `start`) at second `cur`, reload at `now`:
`(commandTime, age, stored, skipped, restoredExpried)`. -/
def journalReload (ef e : Nat) (start cur now : Int) : Int × Nat × Nat × Bool × Nat :=
  let d := engineDeadline ef e start
  let ct := pushCommandTime cur d
  let rem := writeRemaining ef e d ct
  let sk := skippedAt ef rem ct.toNat now
  (ct, pushAge ct start, rem, sk, if sk then 0 else loadRemaining ef rem ct now)

/-! ## Directory, `FindAofFiles`, start-up recovery, compaction

File names are kept in parsed form: `parseName` is the name grammar of `FindAofFiles` (`rewrite.aof`, `append.aof.<decimal>`,
the `.dat` suffix) plus the temporary name of the compaction. Two spellings of one index (`append.aof.1`, `append.aof.01`)
are identified here (in Go the later one in directory order wins). -/

inductive Base
  | rewrite               -- rewrite.aof
  | rewriteTmp            -- rewrite.aof.tmp
  | append (i : Nat)      -- append.aof.<i>   (index already truncated to uint32)
  | other (s : String)
  deriving DecidableEq, Repr

structure FName where
  base : Base
  dat : Bool              -- the `.dat` side file of `base`
  deriving DecidableEq, Repr

abbrev Dir := List (FName × Bytes)

def parseDec (cs : List Char) : Option Nat :=
  if cs.isEmpty then none
  else cs.foldl (fun acc c => acc.bind (fun n => if c.isDigit then some (n * 10 + (c.toNat - 48)) else none)) (some 0)

def parseBase (s : String) : Base :=
  if s == "rewrite.aof" then .rewrite
  else if s == "rewrite.aof.tmp" then .rewriteTmp
  else if s.startsWith "append.aof." then
    match parseDec (s.toList.drop 11) with
    | some n => if n < 2 ^ 64 then .append (n % 2 ^ 32) else .other s
    | none => .other s
  else .other s

def parseName (s : String) : FName :=
  if s.endsWith ".dat" then ⟨parseBase (String.ofList (s.toList.take (s.length - 4))), true⟩ else ⟨parseBase s, false⟩

def Base.show : Base → String
  | .rewrite => "rewrite.aof"
  | .rewriteTmp => "rewrite.aof.tmp"
  | .append i => "append.aof." ++ toString i
  | .other s => s

def FName.show (n : FName) : String := n.base.show ++ (if n.dat then ".dat" else "")

def Dir.get? (d : Dir) (n : FName) : Option Bytes := (d.find? (fun f => f.1 = n)).map (·.2)
def Dir.remove (d : Dir) (n : FName) : Dir := d.filter (fun f => f.1 ≠ n)
def Dir.put (d : Dir) (n : FName) (b : Bytes) : Dir := d.remove n ++ [(n, b)]

inductive FsOp
  | openAppend (base : Base)            -- `AofFile.Open` in write mode: creates the log (header) and its `.dat` if missing
  | append (name : FName) (b : Bytes)   -- write(2) on a file opened with O_APPEND
  | remove (name : FName)               -- os.Remove (error ignored)
  | rename (a b : FName)                -- os.Rename (error ignored)
  deriving DecidableEq, Repr

def applyOp (d : Dir) : FsOp → Dir
  | .openAppend n =>
    let d1 := d.put ⟨n, false⟩ (openAppend ((d.get? ⟨n, false⟩).getD []))
    match d1.get? ⟨n, true⟩ with
    | some _ => d1
    | none => d1.put ⟨n, true⟩ []
  | .append n b => match d.get? n with
    | some old => d.put n (old ++ b)
    | none => d
  | .remove n => d.remove n
  | .rename a b => match d.get? a with
    | some x => (d.remove a).put b x
    | none => d

def applyOps (d : Dir) (ops : List FsOp) : Dir := ops.foldl applyOp d
/-- The directory a crash after the first `i` mutations leaves behind. -/
def applyPrefix (i : Nat) (ops : List FsOp) (d : Dir) : Dir := applyOps d (ops.take i)

/-- The files a start-up looks at: `rewrite.aof`, `append.aof.N` and their `.dat` files — nothing else (in particular not
`rewrite.aof.tmp`). -/
def relevantName (n : FName) : Bool :=
  match n.base with
  | .rewrite => true
  | .append _ => true
  | _ => false

def relevant (d : Dir) : Dir := d.filter (fun f => relevantName f.1)

def appendIndexOf (n : FName) : Option Nat :=
  match n.base, n.dat with
  | .append i, false => some i
  | _, _ => none

/-- `FindAofFiles`: `none` = "append.aof file index error" (a gap between the smallest and the largest index). The
wrap-around branch (`max - min ≥ 0x7fffffff`) needs more than 2^31 files to succeed and is modelled as an error. -/
def findAofFiles (d : Dir) : Option (List Nat × Bool) :=
  let idx := d.filterMap (fun f => appendIndexOf f.1)
  let hasRewrite := d.any (fun f => f.1 = ⟨.rewrite, false⟩)
  match idx with
  | [] => some ([], hasRewrite)
  | _ =>
    let mn := idx.foldl min (2 ^ 32 - 1)
    let mx := idx.foldl max 0
    if mx - mn ≥ 0x7fffffff then none
    else
      let want := (List.range (mx - mn + 1)).map (· + mn)
      if want.all (fun i => idx.contains i) then some (want, hasRewrite) else none

def fileImg (d : Dir) (b : Base) : FileImg := ⟨(d.get? ⟨b, false⟩).getD [], d.get? ⟨b, true⟩⟩

def recoverRelevant (cfg : Nat) (now : Int) (d : Dir) : Option (List Rec) :=
  match findAofFiles d with
  | none => none
  | some (apps, hasRw) =>
    let names := (if hasRw then [Base.rewrite] else []) ++ apps.map Base.append
    match loadFiles cfg now (names.map (fileImg d)) with
    | (rs, true) => some rs
    | (_, false) => none

/-- Start-up (`LoadAndInit`): `none` = start-up error; else the records handed to the engine, in order. -/
def recoverDir (cfg : Nat) (now : Int) (d : Dir) : Option (List Rec) := recoverRelevant cfg now (relevant d)

/-- `findRewriteAofFiles`: rewrite.aof, then every append file older than the current one. -/
def rewriteInputs (d : Dir) (cur : Nat) : Option (List Base) :=
  match findAofFiles d with
  | none => none
  | some (apps, hasRw) =>
    some ((if hasRw then [Base.rewrite] else []) ++
      (apps.filter (fun i => ¬ (i ≥ cur ∧ i - cur < 0x7fffffff))).map Base.append)

/-- The rewrite callback sets the REWRITED bit in the record (`aofLock.buf[55] |= 1`). -/
def markRewritten (r : Rec) : Rec :=
  ⟨overlay r.buf 55 [((byteAt r.buf 55) ||| 1).toUInt8], r.data⟩

def tmpLog : FName := ⟨.rewriteTmp, false⟩
def tmpDat : FName := ⟨.rewriteTmp, true⟩

/-! ### The keep-rule of the compaction: `LockDB.HasLock` as the callback of `loadRewriteAofFiles` calls it -/

def commandType (b : Bytes) : Nat := byteAt b 2
def recFlag (b : Bytes) : Nat := byteAt b 19
def recDb (b : Bytes) : Nat := byteAt b 20
def recLockId (b : Bytes) : Bytes := (b.drop 21).take 16
def recKey (b : Bytes) : Bytes := (b.drop 37).take 16
def recCount (b : Bytes) : Nat := le16 b 61
def recRcount (b : Bytes) : Nat := byteAt b 63

/-- What `HasLock` looks at in a live hold: LockId, deadline (`none` = unlimited, 0x7fff…ffff), Count, Rcount and the
timeout flags of its current command. -/
structure HoldView where
  lockId : Bytes
  expT : Option Int
  count : Nat
  rcount : Nat
  tflag : Nat
  deriving DecidableEq, Repr

/-- One key with at least one hold (`lockManager.locked > 0`): its current value (`currentData.data`) and its holds. -/
structure KeyView where
  db : Nat
  key : Bytes
  value : Option Bytes
  holds : List HoldView
  deriving DecidableEq, Repr

def maxInt64 : Int := 9223372036854775807

/-- `lockCommand.Expried = GetLockCommandExpriedTime(db, aofLock)` — the REMAINING lifetime at `now`, not the recorded one. -/
def keepExpried (now : Int) (b : Bytes) : Nat := loadRemaining (expriedFlag b) (expriedTime b) (commandTime b) now

/-- `LockManager.CheckLockedEqual(hold, command)` through the regenerated kernels (the command built by the compaction has
TimeoutFlag 0). -/
def lockedEqual (now : Int) (h : HoldView) (b : Bytes) : Bool :=
  Slock.Gen.K.checkLockedEqual now (h.expT.getD maxInt64) (expriedFlag b) (keepExpried now b)
    (Slock.Gen.K.checkLockedCountEqual (recCount b) (recRcount b) 0 h.count h.rcount h.tflag)

/-- `LockDB.HasLock(lockCommand, aofLock.data)` (db.go 2913–2966) on the view of the database. -/
def keepRule (now : Int) (view : List KeyView) (r : Rec) : Bool :=
  let b := r.buf
  match view.find? (fun k => k.db = recDb b ∧ k.key = recKey b) with
  | none => false
  | some k =>
    if k.holds.isEmpty then false
    else
      let hold := k.holds.find? (fun h => h.lockId = recLockId b)
      if commandType b = 1 then
        if keepExpried now b = 0 ∧ expriedFlag b &&& 0x4440 = 0 then
          decide (k.value = r.data)
        else if recFlag b &&& 0x02 ≠ 0 then
          match hold with
          | none => false
          | some h =>
            match r.data with
            | none => lockedEqual now h b
            | some d =>
              if k.value ≠ some d then
                if expriedFlag b &&& EXPRIED_FLAG_UNLIMITED_EXPRIED_TIME ≠ 0 ∧ keepExpried now b = 0xffff then
                  ! (decide (h.count = recCount b ∧ h.rcount = recRcount b))
                else lockedEqual now h b
              else true
        else hold.isSome
      else hold.isSome

/-- What the compaction keeps: the records of the inputs (as `LoadAofFiles` at `now` delivers them: expired ones are already
gone) for which `keep` holds; each kept record gets the REWRITED bit. -/
def keptRecords (cfg : Nat) (now : Int) (keep : Rec → Bool) (d : Dir) (inputs : List Base) : List Rec :=
  ((loadFiles cfg now (inputs.map (fileImg d))).1.filter keep).map markRewritten

/-- First half (`loadRewriteAofFiles`): open `rewrite.aof.tmp` in append mode — an existing one, e.g. left by a crashed
compaction, is kept and appended to —, write the kept records, then their value frames (`Flush`: records first). -/
def writeSteps (kept : List Rec) : List FsOp :=
  [FsOp.openAppend .rewriteTmp] ++
  (if kept.isEmpty then [] else [FsOp.append tmpLog (encodeRecs kept)]) ++
  (if (encodeData kept).isEmpty then [] else [FsOp.append tmpDat (encodeData kept)])

/-- Second half (`clearRewriteAofFiles`, aof.go 2091–2109): remove every input and its `.dat`, THEN rename the tmp files. -/
def clearSteps (inputs : List Base) : List FsOp :=
  inputs.flatMap (fun n => [FsOp.remove ⟨n, false⟩, FsOp.remove ⟨n, true⟩]) ++
  [FsOp.rename tmpLog ⟨.rewrite, false⟩, FsOp.rename tmpDat ⟨.rewrite, true⟩]

/-- The ordered file-system mutations of one compaction (`rewriteAofFiles`; `cur` = index of the current append file, already
rotated by `RewriteAofFile`). -/
def compactionSteps (cfg : Nat) (now : Int) (keep : Rec → Bool) (cur : Nat) (d : Dir) : List FsOp :=
  match rewriteInputs (relevant d) cur with
  | none => []
  | some [] => []
  | some inputs => writeSteps (keptRecords cfg now keep d inputs) ++ clearSteps inputs

/-! ## What a journal MEANS: the reference replay `recover`

A journal is a list of things that happened; `recover` applies every record, with no per-record expiry test (mirrors
`vRRecover` of the restart harness, which compares it with the database that wrote the journal and with the database a
restart builds from it):
* LOCK record, id not held → new hold, depth 1, the record's terms;
* LOCK record, id held, update-when-locked flag (0x02) → the record's terms replace the hold's, depth unchanged;
* LOCK record, id held, no 0x02 → depth + 1, the record's terms;
* UNLOCK record, Rcount = 0 → the hold is removed (all levels); Rcount > 0 → one level less, removed at the last one;
* a record with a value frame sets the key's value (an UNLOCK record only if its hold exists); the value goes with the key's
  last hold. -/

structure JRec where
  isLock : Bool
  db : Nat
  key : Nat
  id : Nat
  flag : Nat
  aofFlag : Nat
  eflag : Nat
  stored : Nat
  ct : Int
  count : Nat
  rcount : Nat
  data : Option Bytes
  deriving DecidableEq, Repr

structure JHold where
  db : Nat
  key : Nat
  id : Nat
  depth : Nat
  count : Nat
  rcount : Nat
  eflag : Nat               -- unit flags only (0x4440)
  deadline : Option Int     -- `none` = unlimited
  tflag : Nat               -- TimeoutFlag bits a record carries: 0x10 Rcount-is-priority, 0x1000 require-ack
  deriving DecidableEq, Repr

structure JState where
  holds : List JHold
  values : List ((Nat × Nat) × Bytes)
  deriving DecidableEq, Repr

def JState.empty : JState := ⟨[], []⟩

/-- The deadline a record describes (upper estimate): seconds exact, minutes rounded up by < 60 s, milliseconds command time +
duration + 1. -/
def JRec.deadline (r : JRec) : Option Int :=
  if r.eflag &&& EXPRIED_FLAG_UNLIMITED_EXPRIED_TIME ≠ 0 then none
  else if r.eflag &&& EXPRIED_FLAG_MILLISECOND_TIME ≠ 0 then some (r.ct + (r.stored / 1000 : Nat) + 1)
  else if r.eflag &&& EXPRIED_FLAG_MINUTE_TIME ≠ 0 then some (r.ct + (r.stored : Int) * 60)
  else some (r.ct + r.stored)

def JHold.is (h : JHold) (db key id : Nat) : Bool := h.db == db && h.key == key && h.id == id

def JState.get (st : JState) (db key id : Nat) : Option JHold := st.holds.find? (·.is db key id)

/-- `HandleLoad`: the TimeoutFlag of the replayed command comes from the record's aof flags. -/
def JRec.tflag (r : JRec) : Nat :=
  (if r.aofFlag &&& 0x1000 ≠ 0 then 0x1000 else 0) ||| (if r.aofFlag &&& 0x10 ≠ 0 then 0x10 else 0)

def JRec.terms (r : JRec) (depth : Nat) : JHold :=
  ⟨r.db, r.key, r.id, depth, r.count, r.rcount, r.eflag &&& 0x4440, r.deadline, r.tflag⟩

def JState.setValue (st : JState) (db key : Nat) (v : Bytes) : JState :=
  { st with values := st.values.filter (fun p => p.1 ≠ (db, key)) ++ [((db, key), v)] }

/-- Remove the hold; the key's value goes when this was the key's last hold. -/
def JState.removeHold (st : JState) (db key id : Nat) : JState :=
  let hs := st.holds.filter (fun h => !h.is db key id)
  { holds := hs,
    values := if hs.any (fun h => h.db == db && h.key == key) then st.values else st.values.filter (fun p => p.1 ≠ (db, key)) }

def recoverStep (st : JState) (r : JRec) : JState :=
  if r.isLock then
    let st1 : JState :=
      match st.get r.db r.key r.id with
      | none => { st with holds := st.holds ++ [r.terms 1] }
      | some h =>
        let d := if r.flag &&& 0x02 ≠ 0 then h.depth else h.depth + 1
        { st with holds := st.holds.map (fun x => if x.is r.db r.key r.id then r.terms d else x) }
    match r.data with
    | some v => st1.setValue r.db r.key v
    | none => st1
  else
    match st.get r.db r.key r.id with
    | none => st
    | some h =>
      let st1 := match r.data with
        | some v => st.setValue r.db r.key v
        | none => st
      if r.rcount = 0 ∨ h.depth ≤ 1 then st1.removeHold r.db r.key r.id
      else { st1 with holds := st1.holds.map (fun x => if x.is r.db r.key r.id then { x with depth := x.depth - 1 } else x) }

def recover (rs : List JRec) : JState := rs.foldl recoverStep JState.empty

/-! ## What the code DOES with a journal at a restart: `reload`

`reload now journal` mirrors the real per-record pipeline of a start-up at second `now`, for journals without require-ack /
priority flags:
1. `LoadAofFile` drops the record when `skippedAt` says it is expired (each record on its own);
2. `HandleLoad` turns it into a command with `Expried := loadRemaining … now` and the FROM_AOF flag, Timeout 0;
3. `LockDB.Lock` / `UnLock` (db.go): same LockId held → update-when-locked (0x02: value first, then `CheckLockedEqual` — an
   "equal" update is refused —, then `UpdateLockedLock`) or re-entrant level (`depth ≤ Rcount`, nothing when `Expried = 0`);
   otherwise admission by `doLock` (regenerated kernels `Slock.Gen.K`), a hold only when `Expried > 0`; UNLOCK takes one level
   (`depth > 1 ∧ Rcount > 0`) or the whole hold.
The value of a key lives in its lock manager, which survives its last hold while a dead lock object still sits in the SHORT
expiry wheel (`zombie`); a lock in the LONG table (persist-now flag 0x100 and more than 5 s to live when it was (re)armed) is
freed at once. Millisecond holds are re-armed by a goroutine of their own: a key that lost one is `unsure` (its value / its
survival as an empty key is not predicted). -/

structure RHold where
  id : Nat
  depth : Nat
  count : Nat
  rcount : Nat
  eflag : Nat               -- full ExpriedFlag of the current command
  deadline : Option Int     -- `none` = 0x7fff…ffff
  long : Bool               -- sits in the long expiry table
  tflag : Nat               -- TimeoutFlag of the current command (0x10 Rcount-is-priority, 0x1000 require-ack)
  deriving DecidableEq, Repr

structure RKey where
  db : Nat
  key : Nat
  holds : List RHold        -- head = currentLock
  value : Option Bytes
  zombie : Bool
  unsure : Bool
  deriving DecidableEq, Repr

abbrev RState := List RKey

def RKey.locked (k : RKey) : Nat := (k.holds.map (·.depth)).foldl (· + ·) 0

def isMsFlag (ef : Nat) : Bool := ef &&& EXPRIED_FLAG_UNLIMITED_EXPRIED_TIME = 0 ∧ ef &&& EXPRIED_FLAG_MILLISECOND_TIME ≠ 0

/-- `AddLock` / `UpdateLockedLock` + `AddExpried`: long table iff persist-now flag and more than 5 s to live. -/
def placeLong (ef : Nat) (now : Int) (d : Option Int) : Bool :=
  if isMsFlag ef then false
  else decide (ef &&& 0x100 ≠ 0) && (match d with | none => true | some x => decide (x - now > 5))

/-- `ProcessLockData` for the frames a journal carries (the current value as a SET frame; UNSET). -/
def applyFrame (k : RKey) (data : Option Bytes) : RKey :=
  match data with
  | none => k
  | some f =>
    let ct := byteAt f 4 &&& 0x3f
    if byteAt f 4 / 64 ≠ 0 then k                                   -- not the current stage: ignored
    else if ct = 0 then { k with value := some f }
    else if ct = 1 then { k with value := none }
    else { k with unsure := true }

def RState.getKey (st : RState) (db key : Nat) : RKey :=
  (st.find? (fun k => k.db = db ∧ k.key = key)).getD ⟨db, key, [], none, false, false⟩

def RState.setKey (st : RState) (k : RKey) : RState :=
  if st.any (fun x => x.db = k.db ∧ x.key = k.key) then st.map (fun x => if x.db = k.db ∧ x.key = k.key then k else x)
  else st ++ [k]

def RState.dropKey (st : RState) (db key : Nat) : RState := st.filter (fun x => ¬ (x.db = db ∧ x.key = key))

/-- after a lock object was freed: the lock manager goes when nothing refers to it any more -/
def RState.settle (st : RState) (k : RKey) : RState :=
  if k.holds.isEmpty ∧ ¬ k.zombie ∧ ¬ k.unsure then st.dropKey k.db k.key else st.setKey k

/-- `UpdateLockedLock` (+ the re-arming of the update / re-lock branches of `LockDB.Lock`). -/
def rearm (now : Int) (h : RHold) (r : JRec) (e' depth : Nat) : RHold :=
  let d := if r.eflag &&& EXPRIED_FLAG_UNLIMITED_EXPRIED_TIME ≠ 0 ∧ e' = 0xffff then h.deadline else engineDeadline r.eflag e' now
  let long := if h.long then (if isMsFlag r.eflag then false else if d ≠ h.deadline then placeLong r.eflag now d else true) else false
  { h with depth := depth, count := r.count, rcount := r.rcount, eflag := r.eflag, deadline := d, long := long, tflag := r.tflag }

inductive Treat
  | skipped          -- dropped by LoadAofFile's expired-record filter
  | zeroNoHold       -- LOCK replayed with Expried = 0: no hold / no level
  | newHold | level | updated
  | updateRefused    -- CheckLockedEqual: "equal", terms not updated
  | levelRefused     -- depth > Rcount
  | notAdmitted      -- doLock false
  | unlockedOne | unlockedAll
  | unlockNoHold     -- UNLOCK of a hold that is not there
  deriving DecidableEq, Repr

def reloadStep (now : Int) (st : RState) (r : JRec) : RState × Treat :=
  if skippedAt r.eflag r.stored r.ct.toNat now then (st, .skipped)
  else
    let e' := loadRemaining r.eflag r.stored r.ct now
    let k := st.getKey r.db r.key
    if r.isLock then
      match (if k.locked > 0 then k.holds.find? (·.id = r.id) else none) with
      | some h =>
        if r.flag &&& 0x02 ≠ 0 then
          let k1 := applyFrame k r.data
          let eq := Slock.Gen.K.checkLockedEqual now (h.deadline.getD maxInt64) r.eflag e'
            (Slock.Gen.K.checkLockedCountEqual r.count r.rcount r.tflag h.count h.rcount h.tflag)
          if eq then (st.setKey k1, .updateRefused)
          else
            let h' := rearm now h r e' h.depth
            (st.setKey { k1 with holds := k1.holds.map (fun x => if x.id = r.id then h' else x),
                                 unsure := k1.unsure || (isMsFlag h.eflag != isMsFlag r.eflag) }, .updated)
        else if h.depth < 255 ∧ h.depth ≤ r.rcount ∧ r.tflag &&& 0x10 = 0 then
          if e' = 0 then (st, .zeroNoHold)
          else
            let k1 := applyFrame k r.data
            let h' := rearm now h r e' (h.depth + 1)
            (st.setKey { k1 with holds := k1.holds.map (fun x => if x.id = r.id then h' else x),
                                 unsure := k1.unsure || (isMsFlag h.eflag != isMsFlag r.eflag) }, .level)
        else (st, .levelRefused)
      | none =>
        let cur := (k.holds.head?.map (·.count)).getD 0
        if Slock.Gen.K.doLock k.locked cur r.count r.tflag 0 then
          if e' > 0 then
            let d := engineDeadline r.eflag e' now
            let k1 := applyFrame { k with holds := k.holds ++ [⟨r.id, 1, r.count, r.rcount, r.eflag, d, placeLong r.eflag now d, r.tflag⟩] } r.data
            (st.setKey k1, .newHold)
          else
            (st.settle (applyFrame k r.data), .zeroNoHold)
        else (st, .notAdmitted)
    else
      if k.locked = 0 then (st, .unlockNoHold)
      else match k.holds.find? (·.id = r.id) with
        | none => (st, .unlockNoHold)
        | some h =>
          if h.depth > 1 ∧ r.rcount > 0 ∧ r.tflag &&& 0x10 = 0 then
            let k1 := applyFrame k r.data
            (st.setKey { k1 with holds := k1.holds.map (fun x => if x.id = r.id then { x with depth := x.depth - 1 } else x) }, .unlockedOne)
          else
            let k1 := applyFrame k r.data
            let k2 := { k1 with holds := k1.holds.filter (fun x => x.id ≠ r.id),
                                zombie := k1.zombie || (!h.long && !isMsFlag h.eflag),
                                unsure := k1.unsure || isMsFlag h.eflag }
            (st.settle k2, .unlockedAll)

def reload (now : Int) (rs : List JRec) : RState := rs.foldl (fun st r => (reloadStep now st r).1) []

/-! ### Why a restart differs from what the journal means: the first record of a key that `reload` treats harmfully -/

inductive ReplayClass
  | levelRecordExpired      -- a LOCK record that accounts for a level of a hold that is still alive is dropped / replayed with Expried 0
  | updateRecordExpired     -- an update (0x02) record of a hold that exists is dropped / replayed with Expried 0: the older terms stay
  | unlockRecordExpired     -- an UNLOCK record is dropped while its hold exists: the hold stays
  | updateWithinTolerance   -- an update record is refused by CheckLockedEqual's tolerance against the replayed (not the original) hold
  | valueOfEndedHoldLost    -- the dropped record of an ended hold carried the key's value
  | notAdmitted             -- a LOCK record is refused by doLock: the journal's order / the replayed Counts differ from the grant's
  | levelRefused            -- a re-lock record is refused: replayed depth > Rcount
  | other
  deriving DecidableEq, Repr

def ReplayClass.name : ReplayClass → String
  | .levelRecordExpired => "level-record-expired"
  | .updateRecordExpired => "update-record-expired"
  | .unlockRecordExpired => "unlock-record-expired"
  | .updateWithinTolerance => "update-within-tolerance"
  | .valueOfEndedHoldLost => "value-of-ended-hold-lost"
  | .notAdmitted => "not-admitted"
  | .levelRefused => "level-refused"
  | .other => "other"

def JHold.aliveAt (h : JHold) (now : Int) : Bool := match h.deadline with | none => true | some d => decide (d > now)

/-- The class of ONE record's treatment (`none` = harmless), given the reload state before it and the ideal final state. -/
def treatClass (now : Int) (st : RState) (idealFinal : JState) (r : JRec) (t : Treat) : Option ReplayClass :=
  let held := (st.getKey r.db r.key).holds.any (·.id = r.id)
  match t with
  | .skipped | .zeroNoHold =>
    if ¬ r.isLock then (if held then some .unlockRecordExpired else if r.data.isSome then some .valueOfEndedHoldLost else none)
    else if r.flag &&& 0x02 ≠ 0 ∧ held then some .updateRecordExpired
    else if ((idealFinal.get r.db r.key r.id).map (·.aliveAt now)).getD false then some .levelRecordExpired
    else if r.data.isSome then some .valueOfEndedHoldLost
    else none
  | .updateRefused =>
    -- harmless when the refused terms ARE the hold's terms (same unit, deadline within a second); harmful when the unit differs
    -- or a minute-unit deadline is off by more than a second (the tolerance is 60 s against an already rounded replayed hold)
    match (st.getKey r.db r.key).holds.find? (·.id = r.id) with
    | none => none
    | some h =>
      let d := engineDeadline r.eflag (loadRemaining r.eflag r.stored r.ct now) now
      let off : Bool := match d, h.deadline with
        | some a, some b => decide (a - b > 1 ∨ b - a > 1)
        | none, none => false
        | _, _ => true
      if r.eflag &&& 0x4440 ≠ h.eflag &&& 0x4440 ∨ off then some .updateWithinTolerance else none
  | .notAdmitted => some .notAdmitted
  | .levelRefused => some .levelRefused
  | .unlockNoHold =>
    -- the UNLOCK record of a hold whose LOCK record was filtered: the value frame it carries is not applied
    if r.data.isSome then some .valueOfEndedHoldLost else none
  | _ => none

/-- Per key: the first harmful treatment (a lost value only when nothing else happened to the key). -/
def classifyFrom (now : Int) (idealFinal : JState) : RState → List JRec → List ((Nat × Nat) × ReplayClass) → List ((Nat × Nat) × ReplayClass)
  | _, [], acc => acc
  | st, r :: rs, acc =>
    let (st', t) := reloadStep now st r
    let acc' := match treatClass now st idealFinal r t with
      | none => acc
      | some c =>
        match acc.find? (·.1 = (r.db, r.key)) with
        | none => acc ++ [((r.db, r.key), c)]
        | some (_, .valueOfEndedHoldLost) =>
          if c = .valueOfEndedHoldLost then acc else acc.map (fun p => if p.1 = (r.db, r.key) then (p.1, c) else p)
        | some _ => acc
    classifyFrom now idealFinal st' rs acc'

def classifyReplay (now : Int) (rs : List JRec) : List ((Nat × Nat) × ReplayClass) :=
  classifyFrom now (recover rs) [] rs []

end Slock.Aof
