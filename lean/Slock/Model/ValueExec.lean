import Slock.Model.Value
import Slock.Gen.Layouts
/-
M-VALUE, EXECUTE part: `LockCommandData.DecodeLockCommand` (/repo/protocol/command.go), the decoder of the 64-byte
command embedded in an EXECUTE value frame plus that command's own trailing data frame. Core Lean only.
Reached from `ProcessLockData`'s EXECUTE arm (current stage, no undo record), `ProcessAckLockData` and
`ProcessExecuteLockCommand`. Every slice expression is checked against the CAPACITY (`data ++ extra`), as Go does.
The embedded 64 bytes are opaque here (`LockCommand.Decode` of exactly 64 bytes cannot fail — C14's tables); only the
Flag byte (offset 19, tied to the regenerated layout below) is read.
-/
namespace Slock.Value

/-- `ok`: the 64 command bytes, the embedded command's data frame (if any), and the size of the buffer that was
    allocated BEFORE the length of the announced data was checked (`make([]byte, dataLen+4)`, client-chosen up to 4 GiB). -/
inductive DecodeResult
  | refused                                              -- the EXECUTE frame itself is refused by the parser
  | ok (cmd64 : Bytes) (sub : Option Cmd) (alloc : Option Nat)
  | err (alloc : Option Nat)
  | panic (site : Site)
  deriving DecidableEq, Repr

def DecodeResult.isPanic : DecodeResult → Bool
  | .panic _ => true
  | _ => false

/-- Go `s[lo:hi]`: panics unless `lo ≤ hi ≤ cap(s)` -/
def sliceCap (site : Site) (data extra : Bytes) (lo hi : Nat) : Except Site Bytes :=
  if lo ≤ hi ∧ hi ≤ data.length + extra.length then .ok (((data ++ extra).drop lo).take (hi - lo)) else .error site

def LOCK_FLAG_CONTAINS_DATA : UInt8 := 0x20
def lockCommandFlagOffset : Nat := 19

open Slock.Gen in
theorem exec_consts_tie :
    C.LOCK_FLAG_CONTAINS_DATA = LOCK_FLAG_CONTAINS_DATA.toNat
    ∧ (Slock.Gen.lockCommand.fields.map (·.name)).getD 4 "" = "Flag"
    ∧ Slock.Gen.lockCommand.dec.getD 4 [] = [lockCommandFlagOffset] := by
  decide

/-- `LockCommandData.DecodeLockCommand` -/
def decodeLockCommand (c : Cmd) : DecodeResult :=
  match cmdOff c with
  | .error p => .panic p.site
  | .ok off =>
    if c.data.length < off + 64 then .err none else
    match sliceCap .decodeCmdSlice c.data c.extra off (off + 64) with
    | .error s => .panic s
    | .ok cmd64 =>
      match cmd64[lockCommandFlagOffset]? with
      | none => .err none                     -- LockCommand.Decode: "buf too short"
      | some fl =>
        if fl &&& LOCK_FLAG_CONTAINS_DATA == 0 then .ok cmd64 none none else
        if c.data.length < off + 68 then .err none else
        -- Data[off+64..off+67]: in range exactly because of the test just made
        let dataLen := readLE ((c.data.drop (off + 64)).take 4)
        let alloc := some (dataLen + 4)       -- make([]byte, dataLen+4) happens here, before the length check
        if dataLen = 0 then .ok cmd64 none alloc else
        if c.data.length < off + dataLen + 68 then .err alloc else
        match sliceCap .decodeDataSlice c.data c.extra (off + 68) (off + dataLen + 68) with
        | .error s => .panic s
        | .ok payload =>
          match parseFrame (le32 dataLen ++ payload) [] with
          | none => .err alloc
          | some sub => .ok cmd64 (some sub) alloc

/-- the EXECUTE frame as it comes off the wire / out of a PIPELINE: parse, then decode -/
def decodeFrame (data extra : Bytes) : DecodeResult :=
  match parseFrame data extra with
  | none => .refused
  | some c => decodeLockCommand c

end Slock.Value
