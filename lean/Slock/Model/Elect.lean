/-
M-ELECT: the leader election of server/arbiter.go, written to mirror the code that exists (defects included).
Core Lean only: the driver links this file.

What is mirrored, function by function
* `compareAofId`                 = `ArbiterManager.CompareAofId` (on the 16 id bytes decoded to index / offset / time).
* `currentAof`                   = `ArbiterManager.GetCurrentAofID` (data node: own log position; arbiter: the newest cached
                                   position of the non-arbiter-role members, which it also stores into its own table entry).
* `handleVote`                   = `commandHandleVoteCommand` / the `isSelf` branch of `ArbiterMember.DoVote`.
* `handleProposal`               = `commandHandleProposalCommand` and `ArbiterMember.DoSelfProposal` (same guards).
* `handleCommit`                 = `commandHandleCommitCommand` and `ArbiterMember.DoSelfCommit`.
* `choose`                       = the selection loop of `ArbiterVoter.DoVote`.
* `beginProposal` / `finishProposal` / `finishCommit` = `ArbiterVoter.DoProposal` / `DoCommit`
                                   (number = max(proposalIndex, commitId, proposalId) + 1, read once (`round`); majority =
                                   `len(members)/2+1`; on success DoProposal raises `proposalId` to the round's number only
                                   if it is lower and the member is not latched, and sets `proposalIndex` back to it
                                   (repair d2dfddc); DoCommit assigns `commitId = proposalId`; a failed DoCommit clears the
                                   latch only if the member set it itself, `proposalFromHost` = own host (repair 03cbf03)).
* `restartMember`                = a new `ArbiterManager` + `ArbiterStore.Load` + `ArbiterManager.Load`
                                   (`commitId` := what `Save` last wrote, `proposalId := commitId`, latch "", proposalIndex 0,
                                   every cached role UNKNOWN, every cached log position zero).
* `saved`                        = the `CommitId` inside `meta.pb`. NONE of the vote / proposal / commit handlers calls
                                   `ArbiterStore.Save`; it is called by `voteSucced`, the announcement handler, `QuitLeader`
                                   and the member-configuration commands only. The event `save m` stands for such a call.
* `getMajorityMemberCount`       = `ArbiterManager.GetMajorityMemberCount` (data members / 2 + 1: the ACK quorum, not the
                                   vote majority — the voter uses `len(members)/2+1`).

Granularity: one event = one handler call under `voter.glock`, or one completion of a request inside `DoRequests`.
The network is a list of in-flight messages; any of them can be delivered or lost at any time. `DoRequests` waits for every
request of a phase to finish (reply or error), so a candidate has at most one outstanding message per target.
The request a candidate sends to itself is the direct call `DoSelfProposal` / `DoSelfCommit` (it cannot be lost).

Member tables carry the cached role and the connection status of every entry: an acceptor that knows an ONLINE LEADER
refuses every proposal (ERR_ROLE / ERR_STATUS), a proposal for an offline host is refused (ERR_OFFLINE), a candidate
sends nothing to an entry that is not online (the request fails at once) and does not vote without an online majority.
Outside the model (assumed not to happen during the modelled window): announcements (the `DoAnnouncement()` an acceptor
fires when it refuses because of a leader has no effect on the voter fields), `manager.leaderMember`, status CHANGES,
`abstianed`, membership changes, the uninitialised manager (`ownMember == nil`). Hosts are member indices; `rank`
orders the host strings.


`commits`, `clears` and `started` are GHOST history variables (what an outside observer writes down); no handler reads them and a
restart does not erase them.
-/
namespace Slock.Elect

/-! ### log positions -/

structure AofId where
  index : Nat
  offset : Nat
  time : Nat
deriving DecidableEq, Repr, Inhabited

def AofId.zero : AofId := ⟨0, 0, 0⟩

/-- `0x7fffffff00000000` — the wrap-around window of `CompareAofId`. -/
def WINDOW : Nat := 0x7fffffff00000000

/-- `aid` of the Go code: index in the high 32 bits, offset in the low 32 bits. -/
def AofId.aid (a : AofId) : Nat := a.index * 4294967296 + a.offset

/-- a decoded 16-byte id: both halves of `aid` fit 32 bits, the time fits 64 bits -/
def AofId.WF (a : AofId) : Prop := a.index < 4294967296 ∧ a.offset < 4294967296 ∧ a.time < 18446744073709551616

def compareAofId (a b : AofId) : Int :=
  if a = b then 0
  else if a.aid > b.aid then (if a.aid - b.aid ≥ WINDOW then -1 else 1)
  else if a.aid < b.aid then (if b.aid - a.aid ≥ WINDOW then 1 else -1)
  else if a.time > b.time then 1
  else -1

def leNat : List UInt8 → Nat
  | [] => 0
  | b :: bs => b.toNat + 256 * leNat bs

/-- bytes 0..3 = AofIndex (LE), 4..7 = AofOffset (LE), 8..15 = CommandTime (LE) -/
def decodeAofId (bs : List UInt8) : AofId :=
  ⟨leNat (bs.take 4), leNat ((bs.drop 4).take 4), leNat ((bs.drop 8).take 8)⟩

/-! ### members -/

def ROLE_UNKNOWN : Nat := 0
def ROLE_LEADER : Nat := 1
def ROLE_FOLLOWER : Nat := 2
def ROLE_ARBITER : Nat := 3
def STATUS_ONLINE : Nat := 5

structure VoteResp where
  host : Nat
  rank : Nat
  weight : Nat
  arbiter : Nat
  aof : AofId
  role : Nat
deriving DecidableEq, Repr, Inhabited

inductive Phase | idle | vote | prop | commit | won
deriving DecidableEq, Repr, Inhabited

structure Member where
  rank : Nat := 0                 -- order of the host string
  weight : Nat := 1
  arbiter : Nat := 0
  ownAof : AofId := AofId.zero    -- replicationManager.currentAofId (durable)
  views : List AofId := []        -- member.aofId of every table entry (own entry included)
  roles : List Nat := []          -- member.role of every table entry (own entry = own role)
  statuses : List Nat := []       -- member.status of every table entry (5 = ONLINE; own entry is ONLINE)
  -- ArbiterVoter
  pidx : Nat := 0                 -- proposalIndex
  round : Nat := 0                -- the local `proposalIndex` of the running DoProposal: the number of this round
  cid : Nat := 0                  -- commitId
  pid : Nat := 0                  -- proposalId
  latch : Option Nat := none      -- proposalHost ("" = none)
  fromHost : Option Nat := none   -- proposalFromHost
  voteHost : Option Nat := none
  voteAof : AofId := AofId.zero
  -- ArbiterStore
  saved : Nat := 0                -- CommitId in meta.pb
  -- the candidacy in progress (locals of DoRequests / StartVote)
  phase : Phase := .idle
  finished : Nat := 0
  responses : List VoteResp := []
  accepts : Nat := 0
  isReject : Bool := false
  -- ghost
  commits : List (Nat × Nat) := []   -- every (number, host) this member accepted a commit for
  clears : Nat := 0                  -- how often a failed DoCommit of this member released a latch it had set itself
  started : Bool := false
deriving Repr, Inhabited

def getM : List Member → Nat → Member
  | [], _ => default
  | m :: _, 0 => m
  | _ :: ms, i + 1 => getM ms i

def setM : List Member → Nat → Member → List Member
  | [], _, _ => []
  | _ :: ms, 0, x => x :: ms
  | m :: ms, i + 1, x => m :: setM ms i x

def getA : List AofId → Nat → AofId
  | [], _ => AofId.zero
  | a :: _, 0 => a
  | _ :: as, i + 1 => getA as i

def setA : List AofId → Nat → AofId → List AofId
  | [], _, _ => []
  | _ :: as, 0, x => x :: as
  | a :: as, i + 1, x => a :: setA as i x

def getN : List Nat → Nat → Nat
  | [], _ => 0
  | a :: _, 0 => a
  | _ :: as, i + 1 => getN as i

def setN : List Nat → Nat → Nat → List Nat
  | [], _, _ => []
  | _ :: as, 0, x => x :: as
  | a :: as, i + 1, x => a :: setN as i x

def Member.online (m : Member) (j : Nat) : Bool := getN m.statuses j == STATUS_ONLINE

/-- the newest cached position among the ONLINE entries whose cached role is not ARBITER (`GetCurrentAofID`, arbiter branch) -/
def newestView : List AofId → List Nat → List Nat → AofId → AofId
  | v :: vs, r :: rs, st :: sts, acc =>
    newestView vs rs sts (if r != ROLE_ARBITER && st == STATUS_ONLINE && compareAofId v acc > 0 then v else acc)
  | _, _, _, acc => acc

/-- `GetCurrentAofID` of member `self`: returns the id and the member (an arbiter stores the id in its own entry). -/
def currentAof (self : Nat) (m : Member) : AofId × Member :=
  if m.arbiter != 0 then
    let a := newestView m.views m.roles m.statuses AofId.zero
    (a, { m with views := setA m.views self a })
  else (m.ownAof, m)

/-- `len(members)/2+1` — the voter's majority -/
def voteMajority (n : Nat) : Nat := n / 2 + 1

/-- `GetMajorityMemberCount`: 0 without members, otherwise (non-arbiter members)/2+1 -/
def getMajorityMemberCount (arbiterFlags : List Nat) : Nat :=
  if arbiterFlags.isEmpty then 0 else (arbiterFlags.filter (· == 0)).length / 2 + 1

/-! ### acceptor side -/

def handleVote (self : Nat) (m : Member) : VoteResp × Member :=
  let p := currentAof self m
  ({ host := self, rank := m.rank, weight := m.weight, arbiter := m.arbiter, aof := p.1, role := getN m.roles self }, p.2)

inductive PropRes
  | ok (old : Nat)       -- accepted; the reply carries the previous proposalId
  | reject               -- ERR_REJECT / ProposalRejectError: own log is newer
  | role                 -- ERR_ROLE: the acceptor is the leader itself
  | status               -- ERR_STATUS: the acceptor knows an online leader
  | aofid                -- ERR_AOFID: a cached member position is newer
  | badHost              -- ERR_HOST
  | offline              -- ERR_OFFLINE: the proposed host is not online in the acceptor's table
  | propId (n : Nat)     -- ERR_PROPOSALID with the number the acceptor holds
deriving DecidableEq, Repr, Inhabited

/-- the member loop of the proposal handlers: the first entry that is an online leader (ERR_STATUS) or whose cached log
position is newer than the proposed one (ERR_AOFID) ends it -/
def scanMembers : List Nat → List Nat → List AofId → AofId → Option PropRes
  | r :: rs, st :: sts, v :: vs, a =>
    if r == ROLE_LEADER && st == STATUS_ONLINE then some .status
    else if compareAofId v a > 0 then some .aofid
    else scanMembers rs sts vs a
  | _, _, _, _ => none

/-- the decision of `commandHandleProposalCommand` / `DoSelfProposal` (no state change) -/
def classifyProposal (n self : Nat) (m : Member) (k host : Nat) (aof : AofId) : PropRes :=
  if m.arbiter == 0 && compareAofId m.ownAof aof > 0 then .reject
  else if getN m.roles self == ROLE_LEADER then .role
  else match scanMembers m.roles m.statuses m.views aof with
    | some r => r
    | none =>
      if host ≥ n then .badHost
      else if host != self && !m.online host then .offline
      else if m.pid ≥ k || m.latch.isSome then .propId m.pid
      else if m.cid ≥ k then .propId m.cid
      else .ok m.pid

def handleProposal (n self : Nat) (m : Member) (k host : Nat) (aof : AofId) : PropRes × Member :=
  match classifyProposal n self m k host aof with
  | .ok old => (.ok old, { m with pid := k })
  | r => (r, m)

inductive CommitRes
  | ok | badHost | propId | commitId
deriving DecidableEq, Repr, Inhabited

def classifyCommit (n : Nat) (m : Member) (k host : Nat) : CommitRes :=
  if host ≥ n then .badHost
  else if m.pid != k then .propId
  else if m.cid ≥ k then .commitId
  else .ok

/-- `commandHandleCommitCommand` (from = the requesting member) / `DoSelfCommit` (from = self). Never saves. -/
def handleCommit (n : Nat) (m : Member) (from_ k host : Nat) : CommitRes × Member :=
  match classifyCommit n m k host with
  | .ok => (.ok, { m with latch := some host, fromHost := some from_, cid := k, commits := (k, host) :: m.commits })
  | r => (r, m)

/-! ### proposer side -/

def eligible (r : VoteResp) : Bool := r.arbiter == 0 && r.weight != 0

/-- one iteration of the selection loop of `ArbiterVoter.DoVote` with a candidate already selected -/
def pick (sel r : VoteResp) : VoteResp :=
  if sel.aof = r.aof then
    let sel1 := if sel.weight < r.weight then r else sel
    if sel1.weight = r.weight then (if sel1.rank < r.rank then r else sel1) else sel1
  else if compareAofId r.aof sel.aof > 0 then r
  else sel

def choose : Option VoteResp → List VoteResp → Option VoteResp
  | sel, [] => sel
  | sel, r :: rs =>
    if eligible r then
      match sel with
      | none => choose (some r) rs
      | some s => choose (some (pick s r)) rs
    else choose sel rs

inductive Msg
  | voteReq (c t : Nat)
  | voteRep (c t : Nat) (r : VoteResp)
  | propReq (c t : Nat) (k host : Nat) (aof : AofId)
  | propRep (c t : Nat) (res : PropRes)
  | commitReq (c t : Nat) (k host : Nat)
  | commitRep (c t : Nat) (res : CommitRes)
deriving DecidableEq, Repr, Inhabited

def Msg.isReq : Msg → Bool
  | .voteReq .. | .propReq .. | .commitReq .. => true
  | _ => false

def Msg.cand : Msg → Nat
  | .voteReq c _ | .voteRep c _ _ | .propReq c _ _ _ _ | .propRep c _ _ | .commitReq c _ _ _ | .commitRep c _ _ => c

def Msg.target : Msg → Nat
  | .voteReq _ t | .voteRep _ t _ | .propReq _ t _ _ _ | .propRep _ t _ | .commitReq _ t _ _ | .commitRep _ t _ => t

structure State where
  members : List Member
  net : List Msg
deriving Repr, Inhabited

def State.n (s : State) : Nat := s.members.length

/-- take the (unique) in-flight request (`req = true`) or reply of candidate `c` concerning member `t` -/
def takeMsg (req : Bool) (c t : Nat) : List Msg → Option (Msg × List Msg)
  | [] => none
  | m :: ms =>
    if m.isReq == req && m.cand == c && m.target == t then some (m, ms)
    else match takeMsg req c t ms with
      | some (x, rest) => some (x, m :: rest)
      | none => none

def targets (n : Nat) : List Nat := List.range n

/-- the members a candidate's `DoRequests` really sends to: itself (a direct call) and the entries that are online -/
def reachable (n c : Nat) (m : Member) : List Nat := (targets n).filter (fun t => t == c || m.online t)

/-- the requests to the other entries fail at once ("not online") -/
def unreachableCount (n c : Nat) (m : Member) : Nat := ((targets n).filter (fun t => !(t == c || m.online t))).length

/-- `DoProposal` up to the requests: the number is max(proposalIndex, commitId, proposalId) + 1, read once -/
def beginProposal (n c : Nat) (m : Member) : Member × List Msg :=
  let i1 := if m.pidx ≤ m.cid then m.cid else m.pidx
  let i2 := if i1 ≤ m.pid then m.pid else i1
  let k := i2 + 1
  let host := m.voteHost.getD 0
  ({ m with pidx := k, round := k, phase := .prop, finished := unreachableCount n c m, accepts := 0, isReject := false },
   (reachable n c m).map (fun t => Msg.propReq c t k host m.voteAof))

def beginCommit (n c : Nat) (m : Member) : Member × List Msg :=
  ({ m with phase := .commit, finished := unreachableCount n c m, accepts := 0 },
   (reachable n c m).map (fun t => Msg.commitReq c t m.pidx (m.voteHost.getD 0)))

/-- the end of `DoVote`: majority of answers, selection; on success straight into `DoProposal` -/
def finishVote (n c : Nat) (m : Member) : Member × List Msg :=
  if m.responses.length < voteMajority n then ({ m with phase := .idle }, [])
  else match choose none m.responses with
    | none => ({ m with phase := .idle }, [])
    | some r => beginProposal n c { m with voteHost := some r.host, voteAof := r.aof }

/-- the end of `DoProposal`: on success `proposalId` is raised to the round's number only if it is lower and the member
is not latched (the same conditions under which the proposal handler would accept it), and `proposalIndex` — which the
ERR_PROPOSALID replies of this round may have raised — is set back to the round's number for `DoCommit` -/
def finishProposal (n c : Nat) (m : Member) : Member × List Msg :=
  if m.isReject then ({ m with phase := .idle }, [])
  else if m.accepts < voteMajority n then ({ m with phase := .idle }, [])
  else beginCommit n c { m with pid := if m.pid < m.round && m.latch.isNone then m.round else m.pid, pidx := m.round }

/-- the end of `DoCommit`: failure releases the latch only if this member set it itself (`proposalFromHost` = own host);
success latches and sets `commitId = proposalId` -/
def finishCommit (n c : Nat) (m : Member) : Member × List Msg :=
  if m.accepts < voteMajority n then
    if m.fromHost = some c then
      ({ m with latch := none, fromHost := none, phase := .idle, clears := if m.latch.isSome then m.clears + 1 else m.clears }, [])
    else ({ m with phase := .idle }, [])
  else ({ m with latch := m.voteHost, fromHost := some c, cid := m.pid, phase := .won }, [])

/-- `DoRequests` returns when every request has finished -/
def checkComplete (n c : Nat) (m : Member) : Member × List Msg :=
  if m.finished < n then (m, [])
  else match m.phase with
    | .vote => finishVote n c m
    | .prop => finishProposal n c m
    | .commit => finishCommit n c m
    | _ => (m, [])

/-- a request of the running phase finished with an error (lost request, lost reply) -/
def recordError (n c : Nat) (m : Member) : Member × List Msg :=
  checkComplete n c { m with finished := m.finished + 1 }

def recordVote (n c t : Nat) (m : Member) (r : VoteResp) (remote : Bool) : Member × List Msg :=
  if m.phase != .vote then (m, [])
  else
    let m1 := if remote then { m with views := setA m.views t r.aof, roles := setN m.roles t r.role } else m
    checkComplete n c { m1 with responses := m1.responses ++ [r], finished := m1.finished + 1 }

def recordProposal (n c : Nat) (m : Member) (res : PropRes) (remote : Bool) : Member × List Msg :=
  if m.phase != .prop then (m, [])
  else match res with
    | .ok _ => checkComplete n c { m with accepts := m.accepts + 1, finished := m.finished + 1 }
    | .reject => checkComplete n c { m with isReject := true, finished := m.finished + 1 }
    | .propId x =>
      let m1 := if remote && m.pidx < x then { m with pidx := x } else m
      checkComplete n c { m1 with finished := m1.finished + 1 }
    | _ => checkComplete n c { m with finished := m.finished + 1 }

def recordCommit (n c : Nat) (m : Member) (res : CommitRes) : Member × List Msg :=
  if m.phase != .commit then (m, [])
  else match res with
    | .ok => checkComplete n c { m with accepts := m.accepts + 1, finished := m.finished + 1 }
    | _ => checkComplete n c { m with finished := m.finished + 1 }

def phaseOfMsg : Msg → Phase
  | .voteReq .. | .voteRep .. => .vote
  | .propReq .. | .propRep .. => .prop
  | .commitReq .. | .commitRep .. => .commit

/-- what `ArbiterStore.Load` + `ArbiterManager.Load` leave: see the header -/
def restartMember (m : Member) : Member :=
  { m with
    views := m.views.map (fun _ => AofId.zero), roles := m.roles.map (fun _ => ROLE_UNKNOWN),
    statuses := m.statuses.map (fun _ => STATUS_ONLINE),   -- the harness reconnects every link after a restart
    pidx := 0, round := 0, cid := m.saved, pid := m.saved, latch := none, fromHost := none,
    voteHost := none, voteAof := AofId.zero,
    phase := .idle, finished := 0, responses := [], accepts := 0, isReject := false }

inductive Event
  | start (m : Nat)
  | deliverReq (c t : Nat)
  | deliverRep (c t : Nat)
  | dropReq (c t : Nat)
  | dropRep (c t : Nat)
  | restart (m : Nat)
  | save (m : Nat)
deriving DecidableEq, Repr, Inhabited

def onlineCount (n : Nat) (m : Member) : Nat := ((targets n).filter (fun t => m.online t)).length

/-- the head of the `StartVote` loop: a member latched on ANOTHER online host waits for its announcement; without an
online majority nobody votes -/
def mayStart (n c : Nat) (m : Member) : Bool :=
  m.phase == .idle && (match m.latch with | some h => h == c || !m.online h | none => true) &&
    onlineCount n m ≥ voteMajority n

/-- result of one event, for the driver: a short outcome string is derived from this -/
inductive Outcome
  | none                       -- nothing to deliver / not enabled
  | started | waiting
  | vote (r : VoteResp)
  | prop (r : PropRes)
  | commit (r : CommitRes)
  | done                       -- reply consumed / message dropped / restart / save
deriving DecidableEq, Repr, Inhabited

def step (s : State) (e : Event) : State × Outcome :=
  let n := s.n
  match e with
  | .start c =>
    if c < n then
      let m := getM s.members c
      if mayStart n c m then
        let m' := { m with voteHost := none, voteAof := AofId.zero, phase := .vote, finished := unreachableCount n c m,
                           responses := [], accepts := 0, isReject := false, started := true }
        ({ members := setM s.members c m', net := s.net ++ (reachable n c m).map (fun t => Msg.voteReq c t) }, .started)
      else (s, .waiting)
    else (s, .none)
  | .deliverReq c t =>
    if c < n ∧ t < n then
      match takeMsg true c t s.net with
      | none => (s, .none)
      | some (msg, rest) =>
        let mt := getM s.members t
        match msg with
        | .voteReq _ _ =>
          let (r, mt') := handleVote t mt
          if t = c then
            let (mc, out) := recordVote n c t mt' r false
            ({ members := setM s.members c mc, net := rest ++ out }, .vote r)
          else ({ members := setM s.members t mt', net := rest ++ [Msg.voteRep c t r] }, .vote r)
        | .propReq _ _ k host aof =>
          let (r, mt') := handleProposal n t mt k host aof
          if t = c then
            let (mc, out) := recordProposal n c mt' r false
            ({ members := setM s.members c mc, net := rest ++ out }, .prop r)
          else ({ members := setM s.members t mt', net := rest ++ [Msg.propRep c t r] }, .prop r)
        | .commitReq _ _ k host =>
          let (r, mt') := handleCommit n mt c k host
          if t = c then
            let (mc, out) := recordCommit n c mt' r
            ({ members := setM s.members c mc, net := rest ++ out }, .commit r)
          else ({ members := setM s.members t mt', net := rest ++ [Msg.commitRep c t r] }, .commit r)
        | _ => (s, .none)
    else (s, .none)
  | .deliverRep c t =>
    if c < n ∧ t < n then
      match takeMsg false c t s.net with
      | none => (s, .none)
      | some (msg, rest) =>
        let mc := getM s.members c
        match msg with
        | .voteRep _ _ r =>
          let (mc', out) := recordVote n c t mc r true
          ({ members := setM s.members c mc', net := rest ++ out }, .done)
        | .propRep _ _ r =>
          let (mc', out) := recordProposal n c mc r true
          ({ members := setM s.members c mc', net := rest ++ out }, .done)
        | .commitRep _ _ r =>
          let (mc', out) := recordCommit n c mc r
          ({ members := setM s.members c mc', net := rest ++ out }, .done)
        | _ => (s, .none)
    else (s, .none)
  | .dropReq c t =>
    if c < n ∧ t < n ∧ t ≠ c then
      match takeMsg true c t s.net with
      | none => (s, .none)
      | some (msg, rest) =>
        let mc := getM s.members c
        if mc.phase = phaseOfMsg msg then
          let (mc', out) := recordError n c mc
          ({ members := setM s.members c mc', net := rest ++ out }, .done)
        else ({ s with net := rest }, .done)
    else (s, .none)
  | .dropRep c t =>
    if c < n ∧ t < n then
      match takeMsg false c t s.net with
      | none => (s, .none)
      | some (msg, rest) =>
        let mc := getM s.members c
        if mc.phase = phaseOfMsg msg then
          let (mc', out) := recordError n c mc
          ({ members := setM s.members c mc', net := rest ++ out }, .done)
        else ({ s with net := rest }, .done)
    else (s, .none)
  | .restart c =>
    if c < n then
      ({ members := setM s.members c (restartMember (getM s.members c)),
         net := s.net.filter (fun msg => msg.cand != c) }, .done)
    else (s, .none)
  | .save c =>
    if c < n then
      let m := getM s.members c
      ({ s with members := setM s.members c { m with saved := m.cid } }, .done)
    else (s, .none)

def run (s : State) : List Event → State
  | [] => s
  | e :: es => run (step s e).1 es

/-! ### observers used by the property statements -/

def Event.isRestart : Event → Bool
  | .restart _ => true
  | _ => false

/-- number of members that accepted a commit for (number `k`, host `h`) at some time -/
def commitCount (ms : List Member) (k h : Nat) : Nat :=
  (ms.filter (fun m => m.commits.contains (k, h))).length

def hasCommitMajority (s : State) (k h : Nat) : Bool :=
  commitCount s.members k h ≥ voteMajority s.n

/-- a cluster of `n` members that has not voted yet -/
def initMember (n : Nat) (rank weight arbiter : Nat) (aof : AofId) (role : Nat := ROLE_FOLLOWER) : Member :=
  { rank, weight, arbiter, ownAof := aof, views := List.replicate n AofId.zero, roles := List.replicate n role,
    statuses := List.replicate n STATUS_ONLINE }

end Slock.Elect
