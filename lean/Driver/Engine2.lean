import Driver.Util
import Driver.Engine
import Slock.Model.Engine2
/-! Driver command for the record-level lock engine (M-ENGINE stage 2):
  engine2 <now0> <aofTimeDefault> <op>;<op>;…      one whole operation sequence per line
ops:  L|U req conn flag lockId key tflag timeout eflag expried count rcount <datahex|->
      T (one second) | R 0|1 (leader) | S (snapshot) | J (journal records pushed since the last J)
output: per op, `;`-joined:
  replies `conn:req:result:lcount:lrcount:lockId:count:rcount:datahex` `,`-joined (`-` if none; datahex `-` = no data);
  S: per key record `k<key>=<locked>/<waited>/[lockId.depth.expT.req.isAof.aofTime …]/[lockId.req.timeoutT …]/<cell>/<refCount>`
     joined by `|`, then the counters incl. kc=KeyCount;   J: `ctype.key.lockId.flag.hasData` `,`-joined.
  A value operation that panics prints `panic`.
Cross-check on every L/U/T/R: `abs` of the stage-2 state after the op must equal the stage-1 model (Model/Engine.lean) run on
`abs` of the state before it, replies included — skipped where stage 1 cannot know (the op carries a value frame; a tick off-leader
while a journalled hold exists). One decision is taken over from stage 2 because it reads the value cell, which stage 1 does not
have: whether an UPDATE_WHEN_LOCKED request that carries the CONTAINS_DATA flag (but no frame) with terms equal to the hold's is
answered without touching the hold (only if the key's value is journalled and no pipeline is pending) or replaces the hold's
command; the state and reply of whichever branch that is are still compared. A difference appends ` ABS-MISMATCH` to that op's output.
-/
namespace Driver
open Slock.Engine2

def showReply2 (r : Reply) : String :=
  showReply r.r ++ ":" ++ (match r.data with | some d => toHex d | none => "-")

def showReplies2 (rs : List Reply) : String :=
  if rs.isEmpty then "-" else ",".intercalate (rs.map showReply2)

def showCell2 : Option Slock.Value.Cell → String
  | none => "-"
  | some c => s!"{toHex c.data}.{c.ctype}.{if c.isAof then 1 else 0}"

def b01 (b : Bool) : String := if b then "1" else "0"

def showKey2 (k : Key) : String :=
  let hs := " ".intercalate (k.holders.map (fun h => s!"{h.cmd.lockId}.{h.depth}.{showExp h.expT}.{h.cmd.req}.{b01 h.isAof}.{h.aofTime}"))
  let ws := " ".intercalate (k.waiters.map (fun w => s!"{w.cmd.lockId}.{w.cmd.req}.{w.timeoutT}"))
  s!"k{k.key}={k.locked}/{b01 k.waited}/[{hs}]/[{ws}]/{showCell2 k.cell}/{k.refCount}"

def showDB2 (db : DB) : String :=
  "|".intercalate ((Slock.Engine.sortBySeq (·.key) db.keys).map showKey2) ++ "|" ++ showCtr db.ctr ++ s!" kc={db.keyCount}"

def showJournal (js : List JournalRec) : String :=
  if js.isEmpty then "-" else ",".intercalate (js.map (fun j => s!"{j.ctype}.{j.key}.{j.lockId}.{j.flag}.{b01 j.hasData}"))

def parseCmd2 (ts : List String) : Option (Cmd × Option Bytes) :=
  match ts.reverse with
  | d :: rest => do
    let c ← parseCmd rest.reverse
    let data ← if d == "-" then some none else (parseHexAux d.toList).map some
    pure (c, data)
  | [] => none

structure E2State where
  db : DB
  jmark : Nat := 0       -- journal records already printed

def normKeys (d : Slock.Engine.DB) : Slock.Engine.DB := { d with keys := Slock.Engine.sortBySeq (·.key) d.keys }

/-- does any hold of the database carry the journalled bit -/
def anyAof (db : DB) : Bool := db.keys.any (fun k => k.recs.any (·.isAof))

def crossCheck (pre : DB) (post : DB) (rs : List Reply) (o : Op) : Bool :=
  let a := abs pre
  let skip := match o with
    | .lock c d | .unlock c d => (Slock.Engine2.frameOf c d).isSome
    | .tick => !pre.leader && anyAof pre
    | .setLeader _ => false
  if skip || post.panicked then true
  else
    let r1 : Slock.Engine.DB × List Slock.Engine.Reply := match o with
      | .lock c d =>
        if Slock.Engine.has c.flag Slock.Engine.F_UPDATE && Slock.Engine.has c.flag F_DATA then
          match Slock.Engine2.classifyLock pre c d, Slock.Engine.classifyLock a c with
          | .update _, .updateEqual h => Slock.Engine.applyLock a c (.update h)
          | .updateEqualData _, .update h => Slock.Engine.applyLock a c (.updateEqual h)
          | _, b => Slock.Engine.applyLock a c b
        else Slock.Engine.opLock a c
      | .unlock c _ => Slock.Engine.opUnlock a { c with mgr := pre.hasKey c.key }
      | .tick => Slock.Engine.opTick a
      | .setLeader b => ({ a with leader := b }, [])
    decide (normKeys r1.1 = normKeys (abs post)) && decide (r1.2 = rs.map (·.r))

def engine2Op (st : E2State) (op : String) : Option (E2State × String) :=
  let fin (o : Op) : E2State × String :=
    let r := step st.db o
    let s := if r.1.panicked then "panic" else showReplies2 r.2
    let s := if crossCheck st.db r.1 r.2 o then s else s ++ " ABS-MISMATCH"
    ({ st with db := r.1 }, s)
  match (op.splitOn " ").filter (· ≠ "") with
  | "L" :: ts => do let (c, d) ← parseCmd2 ts; pure (fin (.lock c d))
  | "U" :: ts => do let (c, d) ← parseCmd2 ts; pure (fin (.unlock c d))
  | ["T"] => some (fin .tick)
  | ["R", b] => some (fin (.setLeader (b == "1")))
  | ["S"] => some (st, showDB2 st.db)
  | ["J"] => some ({ st with jmark := st.db.aofOut.length }, showJournal (st.db.aofOut.drop st.jmark))
  | _ => none

def runEngine2 (st : E2State) : List String → List String → Option (List String)
  | [], acc => some acc.reverse
  | op :: ops, acc =>
    match engine2Op st op with
    | some (s, o) => runEngine2 s ops (o :: acc)
    | none => none

def handleEngine2 : List String → Option String
  | "engine2" :: now0 :: aofTime :: rest => do
    let n ← now0.toNat?
    let a ← aofTime.toNat?
    let ops := ((" ".intercalate rest).splitOn ";").filter (· ≠ "")
    let outs ← runEngine2 { db := DB.init n a } ops []
    pure (";".intercalate outs)
  | _ => none

end Driver
