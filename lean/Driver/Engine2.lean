import Driver.Util
/-! Driver commands: Engine2 (stub — replaced by the real handler). -/
namespace Driver

def handleEngine2 : List String → Option String
  | _ => none

end Driver
