import Driver.Util
import Slock.Model.Value
import Slock.Model.ValueExec
/-! Driver command for M-VALUE:
  value <locked> <waited01> <lock|unlock> <updOrZero01> <fromAof01> <recover01> <frame hex>;<frame hex>;…
  The cell starts empty; the frames are applied in order through `Slock.Value.processFrame`; after a panic the
  cell is discarded (fresh manager). Output, one item per frame joined by `;`:
    nil | <data hex> <commandType> <isAof01> <bytes between len and cap, hex> | refused | panic
  (refused = NewLockCommandDataFromOriginBytes returns nil: the parser answers with an error, the cell is untouched)
-/
namespace Driver
open Slock.Value

def showCell : Option Cell → String
  | none => "nil"
  | some c => s!"{showHex c.data} {c.ctype} {if c.isAof then 1 else 0} {showHex c.extra}"

def runFrames (cx : Ctx) : Option Cell → List Bytes → List String
  | _, [] => []
  | cur, f :: fs =>
    match parseFrame f [], processFrame cx cur f with
    | none, _ => "refused" :: runFrames cx cur fs
    | _, .ok cur' => showCell cur' :: runFrames cx cur' fs
    | _, .error _ => "panic" :: runFrames cx none fs

/-- `valuedecode <frame hex> <extra hex>` → refused | err <big01> | panic | ok <cmd64 hex> <sub-frame hex or -> <big01>
    (big = a buffer of ≥ 128 KiB was allocated before the announced length was checked) -/
def showBig : Option Nat → String
  | some n => if n ≥ 131072 then "1" else "0"
  | none => "0"

def showDecode : DecodeResult → String
  | .refused => "refused"
  | .panic _ => "panic"
  | .err a => s!"err {showBig a}"
  | .ok c sub a => s!"ok {showHex c} {match sub with | some x => showHex x.data | none => "-"} {showBig a}"

def parse01 (s : String) : Option Bool :=
  if s == "0" then some false else if s == "1" then some true else none

def handleValue : List String → Option String
  | ["value", locked, waited, ct, upd, aof, rec, frames] => do
    let l ← locked.toNat?
    let w ← parse01 waited
    let t ← if ct == "lock" then some CmdType.lock else if ct == "unlock" then some CmdType.unlock else none
    let u ← parse01 upd
    let a ← parse01 aof
    let r ← parse01 rec
    let fs ← (frames.splitOn ";").mapM parseHex
    pure (";".intercalate (runFrames ⟨l, w, t, u, a, r⟩ none fs))
  | ["valuedecode", frame, extra] => do
    let f ← parseHex frame
    let e ← parseHex extra
    pure (showDecode (decodeFrame f e))
  | ["valuedecode-e2e", frame, extra] => do
    -- end to end through LockDB.Lock: only "does the server survive" is compared
    let f ← parseHex frame
    let e ← parseHex extra
    pure (if (decodeFrame f e).isPanic then "panic" else "nopanic")
  | _ => none

end Driver
