import Driver.Util
/-! Driver commands: Value (stub — replaced by the real handler). -/
namespace Driver

def handleValue : List String → Option String
  | _ => none

end Driver
