import Driver.Util
import Slock.Model.Trans
/-! Driver command for M-TRANS (request forwarding by a node that is not the leader):

  trans <event>;<event>;…       one whole script per line; connections are numbered 0,1,… in `a` order
events:
  a b|t                                  accept a binary / text connection                       → ok
  q <c> L|U <w|p|v> <tok> <flag> <db> <lockid> <key> <tflag> <timeout> <eflag> <expried> <count> <rcount> <data> <replica>
                                         LOCK / UNLOCK (text: w = LOCK/UNLOCK, p = PUSH, v = SET); replica = n | m | <locked>[:<data>]
  q <c> WL|WU <tok> <flag> <db> <lockid> <key> <tflag> <timeout> <eflag> <expried> <count> <rcount> <data>   a will command
  q <c> I <tok> <cid>                    INIT
  q <c> C <tok> 0|1                      CALL (1 = LIST_LOCK / LIST_LOCKED / LIST_WAIT)
  q <c> O                                any other command
  Q …                                    as q …: the whole command arrived in the connection's first 64-byte read
  re …                                   as r …: the frame was processed before `Write` had recorded the command as the latest
  rx <c> …                               a frame read before the fresh link was attached to connection c: dropped unseen
  r <c> R L|U|I <tok> <result> <flag> <db> <lockid> <key> <lcount> <count> <lrcount> <rcount> <data>   lock result from the leader
  r <c> I <tok> <result> <itype> | r <c> C <tok> <result> <content> | r <c> X
  d <c>                                  the link of connection c loses its socket
  s i|l|f|s|c|v|x                        node state (init leader follower sync config vote close)
  l 0|1|2                                ChangeLeader: no address / the live leader / a dead address
  x <c>                                  the client closes connection c
  x <c> <k>                              … and the link's reader closes the link after k of Close's frames have gone out
output per event: ok | ign | busy | defer | loc | nolink | <to clients>|<forwarded>  with
  to clients = `c>msg` joined by + (or -), forwarded = `c<cmd` joined by + (or -)
ids (lockid, key, cid): a script number n, or z = the all-zero id.
-/
namespace Driver
open Slock.Trans

def tId (n : Nat) : String := if n = 0 then "z" else toString (n - 1)
def tParseId (s : String) : Option Nat := if s == "z" then some 0 else (· + 1) <$> s.toNat?

def tData (d : List Nat) : String := if d.isEmpty then "-" else toHex (d.map (·.toUInt8))
def tParseData (s : String) : Option (List Nat) := (·.map (·.toNat)) <$> parseHex s

def tCt : CType → String
  | .lock => "L" | .unlock => "U" | .init => "I" | .call => "C"

def showToClient : ToClient → String
  | .lockRes r =>
    if r.ct = .init then s!"I:{r.rid},{r.result},{r.flag}"
    else s!"R:{tCt r.ct},{r.rid},{r.result},{r.flag},{r.dbId},{tId r.lockId},{tId r.lockKey},{r.lcount},{r.count},{r.lrcount},{r.rcount},{tData r.data}"
  | .textRes r => s!"T:{r.result},{tId r.lockId},{r.lcount},{(r.count + 1) % 65536},{r.lrcount},{(r.rcount + 1) % 256}"
  | .valueRes r => if r.result = 0 ∨ r.result = 5 then "V:ok" else if r.result = 8 then "V:nil" else s!"V:err{r.result}"
  | .initRes rid res it => s!"I:{rid},{res},{it}"
  | .callRes rid res content => s!"C:{rid},{res},{tData content}"
  | .textErr .unknownDb => "E:db"
  | .textErr .leaderServerError => "E:leader"
  | .textOk => "K"

def showFwd : Fwd → String
  | .lk ct c => s!"{tCt ct}:{c.rid},{c.flag},{c.dbId},{tId c.lockId},{tId c.lockKey},{c.timeoutFlag},{c.timeout},{c.expriedFlag},{c.expried},{c.count},{c.rcount},{tData c.data}"
  | .init rid cid => s!"I:{rid},{tId cid}"
  | .call rid => s!"C:{rid}"

def showTransOut (o : Out) : String :=
  match o.tag with
  | .ok => "ok"
  | .ign => "ign"
  | .busy => "busy"
  | .deferred => "defer"
  | .loc _ => "loc"
  | .nolink => "nolink"
  | _ =>
    let cl := if o.client.isEmpty then "-" else "+".intercalate (o.client.map (fun p => s!"{p.1}>" ++ showToClient p.2))
    let fw := if o.fwd.isEmpty then "-" else "+".intercalate (o.fwd.map (fun p => s!"{p.1}<" ++ showFwd p.2))
    cl ++ "|" ++ fw

def tParseReplica (s : String) : Option Replica :=
  if s == "n" then some .noDb
  else if s == "m" then some .noMgr
  else
    match s.splitOn ":" with
    | [a] => do pure (.mgr (← a.toNat?) [])
    | [a, d] => do pure (.mgr (← a.toNat?) (← tParseData d))
    | _ => none

def tParseRole : String → Option Role
  | "i" => some .init | "l" => some .leader | "f" => some .follower | "s" => some .sync
  | "c" => some .config | "v" => some .vote | "x" => some .close | _ => none

def tParseCt : String → Option CType
  | "L" => some .lock | "U" => some .unlock | "I" => some .init | "C" => some .call | _ => none

def tParseMode : String → Option TextMode
  | "w" => some .wait | "p" => some .push | "v" => some .value | _ => none

def parseTransEvent (ts : List String) : Option Event :=
  match ts with
  | ["a", "b"] => some (.accept .binary)
  | ["a", "t"] => some (.accept .text)
  | ["q", c, k, m, tok, flag, db, lid, key, tf, t, ef, e, cnt, rc, d, rep] => do
    let ct ← (if k == "L" then some CType.lock else if k == "U" then some CType.unlock else none)
    let cmd : LockCmd :=
      { rid := ← tok.toNat?, flag := ← flag.toNat?, dbId := ← db.toNat?, lockId := ← tParseId lid, lockKey := ← tParseId key,
        timeoutFlag := ← tf.toNat?, timeout := ← t.toNat?, expriedFlag := ← ef.toNat?, expried := ← e.toNat?,
        count := ← cnt.toNat?, rcount := ← rc.toNat?, data := ← tParseData d }
    pure (.request (← c.toNat?) false (.lk ct (← tParseMode m) cmd (← tParseReplica rep)))
  | ["q", c, k, tok, flag, db, lid, key, tf, t, ef, e, cnt, rc, d] => do
    let ct ← (if k == "WL" then some CType.lock else if k == "WU" then some CType.unlock else none)
    let cmd : LockCmd :=
      { rid := ← tok.toNat?, flag := ← flag.toNat?, dbId := ← db.toNat?, lockId := ← tParseId lid, lockKey := ← tParseId key,
        timeoutFlag := ← tf.toNat?, timeout := ← t.toNat?, expriedFlag := ← ef.toNat?, expried := ← e.toNat?,
        count := ← cnt.toNat?, rcount := ← rc.toNat?, data := ← tParseData d }
    pure (.request (← c.toNat?) false (.will ct cmd))
  | ["q", c, "I", tok, cid] => do pure (.request (← c.toNat?) false (.init (← tok.toNat?) (← tParseId cid)))
  | ["q", c, "C", tok, fw] => do pure (.request (← c.toNat?) false (.call (← tok.toNat?) (fw == "1")))
  | ["q", c, "O"] => do pure (.request (← c.toNat?) false .other)
  | ["r", c, "R", k, tok, res, flag, db, lid, key, lc, cnt, lrc, rc, d] => do
    let r : LockRes :=
      { ct := ← tParseCt k, rid := ← tok.toNat?, result := ← res.toNat?, flag := ← flag.toNat?, dbId := ← db.toNat?,
        lockId := ← tParseId lid, lockKey := ← tParseId key, lcount := ← lc.toNat?, count := ← cnt.toNat?,
        lrcount := ← lrc.toNat?, rcount := ← rc.toNat?, data := ← tParseData d }
    pure (.leaderMsg (← c.toNat?) (.lockRes r) false)
  | ["r", c, "I", tok, res, it] => do pure (.leaderMsg (← c.toNat?) (.initRes (← tok.toNat?) (← res.toNat?) (← it.toNat?)) false)
  | ["r", c, "C", tok, res, d] => do pure (.leaderMsg (← c.toNat?) (.callRes (← tok.toNat?) (← res.toNat?) (← tParseData d)) false)
  | ["r", c, "X"] => do pure (.leaderMsg (← c.toNat?) .other false)
  | ["d", c] => do pure (.linkDown (← c.toNat?))
  | ["s", r] => do pure (.role (← tParseRole r))
  | ["l", "0"] => some (.leader .none)
  | ["l", "1"] => some (.leader .live)
  | ["l", "2"] => some (.leader .dead)
  | ["x", c] => do pure (.close (← c.toNat?))
  | ["x", c, k] => do pure (.closeCut (← c.toNat?) (← k.toNat?))
  | _ => none

def parseTransEvent' (ts : List String) : Option Event :=
  match ts with
  | "Q" :: rest =>
    match parseTransEvent ("q" :: rest) with
    | some (.request c _ q) => some (.request c true q)
    | _ => none
  | "re" :: rest =>
    match parseTransEvent ("r" :: rest) with
    | some (.leaderMsg c m _) => some (.leaderMsg c m true)
    | _ => none
  | "rx" :: c :: _ => do pure (.unattached (← c.toNat?))
  | _ => parseTransEvent ts

def runTrans (s : Node) : List String → List String → Option (List String)
  | [], acc => some acc.reverse
  | ev :: evs, acc =>
    match parseTransEvent' ((ev.splitOn " ").filter (· ≠ "")) with
    | none => none
    | some e =>
      let r := step s e
      runTrans r.1 evs (showTransOut r.2 :: acc)

def handleTrans : List String → Option String
  | "trans" :: rest => do
    let evs := ((" ".intercalate rest).splitOn ";").filter (fun e => ((e.splitOn " ").filter (· ≠ "")) ≠ [])
    let outs ← runTrans {} evs []
    pure (";".intercalate outs)
  | _ => none

end Driver
