import Driver.Util
/-! Driver command for M-TRANS (request forwarding by a non-leader node): placeholder, replaced by the component's author. -/
namespace Driver

def handleTrans (toks : List String) : Option String :=
  match toks with
  | "trans" :: _ => some "unimplemented"
  | _ => none

end Driver
