import Driver.Util
import Slock.Model.Queue2
/-! Driver command for the containers of server/lock.go (model `Slock.Queue2`):

  queue <kind> <p1> <p2> <p3> <op>;<op>;…        kind ∈ ring | prio | holder | wait

  ring   p1 = size                      NewLockManagerRingQueue(size)
  prio   p1 = size                      NewLockManagerPriorityRingQueue(size)
  holder (no parameters)                NewLockManagerLockQueue()
  wait   p1 = 1: priority queue         NewLockManagerWaitQueue(p1 == 1), owned by a LockManager
                                        (for `add`: `waited` starts false)
ops (no spaces):
  push:<id>:<prio>:<key>:<rc>   Push a fresh lock (locked=1, timeouted=false, ackCount=0xff, refCount=rc)
  pushnil                       Push(nil)
  add:<id>:<prio>:<key>:<rc>    wait only: LockManager.AddWaitLock (conditional RePush, Push, refCount++)
  pop | head | len | iter | maxprio | reset | resize | repush
  kill:<id>:<locked>:<timeouted>:<ack>   set the tombstone fields of the lock with that id in place
  getlock:<key> | rmlock:<key>  holder only: GetLock / RemoveLock
Output: one observation per op joined by `;`, each `<result>/<state>`; after a Go panic the
observation is `panic` and the remaining ops are not executed.  An op the kind does not have
(e.g. `repush` on a ring) gives `bad-op`.
-/
namespace Driver
open Slock.Queue2

def q2Slot : Slot → String
  | none => "_"
  | some e => toString e.id

def q2Node (l : List Slot) : String := "[" ++ ",".intercalate (l.map q2Slot) ++ "]"

def q2Nodes (ns : List (List Slot)) : String :=
  if ns.isEmpty then "-" else String.join (ns.map q2Node)

def q2Ring (r : Ring) : String := s!"{r.index}.{r.queue.length}.{r.cap}"

def q2PRing (p : PRing) : String :=
  (if p.nodes.isEmpty then "-" else ",".intercalate (p.nodes.map (fun n => s!"p{n.priority}:{q2Ring n.ring}")))
    ++ s!"/c{p.nodesCap}"

def q2Fast : Option FastQ → String
  | none => "nil"
  | some f => s!"{f.data.length}.{f.cap}"

def q2WRing : WRing → String
  | .nil => "n"
  | .ring r => "r" ++ q2Ring r
  | .prio p => "p" ++ q2PRing p

def q2Wait (q : WaitQ) : String := s!"f{q2Fast q.fast}.i{q.fastIndex}/{q2WRing q.ring}"

def q2Holder (q : HolderQ) : String :=
  s!"f{q2Fast q.fast}.i{q.fastIndex}/s" ++ (match q.scale with | none => "nil" | some s => toString s.q.length)

def q2PushOut (o : PushOut) : String :=
  let d := if o.dropped.isEmpty then "-" else ",".intercalate (o.dropped.map (fun e => s!"{e.id}:{e.refCount}"))
  let f := if o.freed.isEmpty then "-" else ",".intercalate (o.freed.map toString)
  s!"drop={d}/free={f}"

inductive Q2State where
  | ring (r : Ring)
  | prio (p : PRing)
  | holder (h : HolderQ)
  | wait (q : WaitQ) (waited : Bool)

def q2MkElem (id prio key rc : String) : Option Elem := do
  let i ← id.toNat?
  let p ← prio.toNat?
  let k ← key.toNat?
  let r ← rc.toNat?
  pure { id := i, priority := p, lockIdKey := k, locked := 1, timeouted := false, ackCount := 255, refCount := r }

/-- `none` = malformed op; `some (obs, none)` = panic, stop. -/
def q2Step (grow : Nat → Nat) (st : Q2State) (op : String) : Option (String × Option Q2State) :=
  let parts := op.splitOn ":"
  let pushObs (x : Slot) : Option (String × Option Q2State) :=
    match st with
    | .ring r => match r.push grow x with
      | .ok r' => some ("ok/" ++ q2Ring r', some (.ring r'))
      | .panic => some ("panic", none)
    | .prio p => match p.push grow x with
      | .ok p' => some ("ok/" ++ q2PRing p', some (.prio p'))
      | .panic => some ("panic", none)
    | .holder h => match h.push grow x with
      | .ok (h', o) => some (q2PushOut o ++ "/" ++ q2Holder h', some (.holder h'))
      | .panic => some ("panic", none)
    | .wait q w => match q.push grow x with
      | .ok (q', o) => some (q2PushOut o ++ "/" ++ q2Wait q', some (.wait q' w))
      | .panic => some ("panic", none)
  match parts with
  | ["push", id, prio, key, rc] => do
    let e ← q2MkElem id prio key rc
    pushObs (some e)
  | ["pushnil"] => pushObs none
  | ["add", id, prio, key, rc] => do
    let e ← q2MkElem id prio key rc
    match st with
    | .wait q w =>
      match (WaitMgr.mk (some q) w).addWaitLock grow e with
      | .ok (⟨some q', w'⟩, o) => some (q2PushOut o ++ "/" ++ q2Wait q', some (.wait q' w'))
      | .ok (⟨none, _⟩, _) => none
      | .panic => some ("panic", none)
    | _ => none
  | ["pop"] =>
    match st with
    | .ring r => let o := r.pop; some (q2Slot o.2 ++ "/" ++ q2Ring o.1, some (.ring o.1))
    | .prio p => let o := p.pop; some (q2Slot o.2 ++ "/" ++ q2PRing o.1, some (.prio o.1))
    | .holder h => let o := h.pop; some (q2Slot o.2 ++ "/" ++ q2Holder o.1, some (.holder o.1))
    | .wait q w => let o := q.pop; some (q2Slot o.2 ++ "/" ++ q2Wait o.1, some (.wait o.1 w))
  | ["head"] =>
    match st with
    | .ring r => some (q2Slot r.head, some st)
    | .prio p => some (q2Slot p.head, some st)
    | .holder h => some (q2Slot h.head, some st)
    | .wait q _ => some (q2Slot q.head, some st)
  | ["len"] =>
    match st with
    | .ring r => some (toString r.len, some st)
    | .prio p => some (toString p.len, some st)
    | .holder h => some (toString h.len, some st)
    | .wait q _ => some (toString q.len, some st)
  | ["iter"] =>
    match st with
    | .ring r => some (q2Nodes r.iterNodes, some st)
    | .prio p => some (q2Nodes p.iterNodes, some st)
    | .holder h =>
      let o := h.iterNodes
      some (q2Nodes o.1 ++ (match o.2 with | none => "" | some l => "+S" ++ toString l.length), some st)
    | .wait q _ => some (q2Nodes q.iterNodes, some st)
  | ["maxprio"] =>
    let sh : Res Nat → Option (String × Option Q2State)
      | .ok n => some (toString n, some st)
      | .panic => some ("panic", none)
    match st with
    | .ring r => sh r.maxPriority
    | .prio p => sh (.ok p.maxPriority)
    | .wait q _ => sh q.maxPriority
    | .holder _ => none
  | ["reset"] =>
    match st with
    | .holder h => let h' := h.reset; some ("ok/" ++ q2Holder h', some (.holder h'))
    | .wait q w => let q' := q.reset; some ("ok/" ++ q2Wait q', some (.wait q' w))
    | _ => none
  | ["resize"] =>
    match st with
    | .holder h => let h' := h.resize; some ("ok/" ++ q2Holder h', some (.holder h'))
    | _ => none
  | ["repush"] =>
    match st with
    | .wait q w => match q.rePush grow with
      | .ok q' => some ("ok/" ++ q2Wait q', some (.wait q' w))
      | .panic => some ("panic", none)
    | _ => none
  | ["kill", id, locked, timeouted, ack] => do
    let i ← id.toNat?
    let l ← locked.toNat?
    let t ← timeouted.toNat?
    let a ← ack.toNat?
    let g : Elem → Elem := fun e => { e with locked := l, timeouted := t != 0, ackCount := a }
    match st with
    | .ring r => some ("ok", some (.ring (r.mapId g i)))
    | .prio p => some ("ok", some (.prio (p.mapId g i)))
    | .holder h => some ("ok", some (.holder (h.mapId g i)))
    | .wait q w => some ("ok", some (.wait (q.mapId g i) w))
  | ["getlock", key] => do
    let k ← key.toNat?
    match st with
    | .holder h => match h.getLock k with
      | .ok r => some (q2Slot r, some st)
      | .panic => some ("panic", none)
    | _ => none
  | ["rmlock", key] => do
    let k ← key.toNat?
    match st with
    | .holder h => some ("ok", some (.holder (h.removeLock k)))
    | _ => none
  | _ => none

def q2Run (grow : Nat → Nat) : Q2State → List String → List String → List String
  | _, [], acc => acc.reverse
  | st, op :: ops, acc =>
    match q2Step grow st op with
    | none => ("bad-op" :: acc).reverse
    | some (obs, none) => (obs :: acc).reverse
    | some (obs, some st') => q2Run grow st' ops (obs :: acc)

def handleQueue2 : List String → Option String
  | ["queue", kind, p1, _p2, _p3, ops] => do
    let n ← p1.toNat?
    let st ← match kind with
      | "ring" => some (Q2State.ring (Ring.new n))
      | "prio" => some (Q2State.prio (PRing.new n))
      | "holder" => some (Q2State.holder HolderQ.new)
      | "wait" => some (Q2State.wait (WaitQ.new (n == 1)) false)
      | _ => none
    pure (";".intercalate (q2Run goGrow st (ops.splitOn ";") []))
  | _ => none

end Driver
