import Driver.Util
import Slock.Model.Elect
/-! Driver commands for the election model (M-ELECT).

  elect <spec> <event>;<event>;…        one whole execution per line
    spec   = A=<hex32>,<hex32>,…/<member>/<member>/…            (no blanks; A = palette of 16-byte log ids, raw byte order)
    member = rank:weight:arbiter:ownAof:pid:cid:saved:r.r.r…:v.v.v…:s.s.s…   (ownAof and v = palette indices; r = cached roles, v = cached ids, s = statuses (5 = online), one per table entry)
    event  = s<m> start candidacy | q<c>.<t> deliver request of candidate c to t (t=c: the self call) | r<c>.<t> deliver t's reply to c
             | xq<c>.<t> lose the request | xr<c>.<t> lose the reply | R<m> restart from meta.pb | S<m> ArbiterStore.Save | Z snapshot
    output = per event, `;`-joined:  <res>/<pid>.<cid>.<latch>/<phase><voteHost>   of the acting member
             (start, r, xq, xr, R, S: the candidate / member; q: the target).  Z prints every member.
  cmpaof <idA hex32> <idB hex32>        → -1 | 0 | 1        (CompareAofId)
  majcount <arbiter flags ,-joined | ->  → GetMajorityMemberCount
  votepick <hex32>:<rank>:<weight>:<arbiter>,…   → index of the response DoVote selects (or -)
-/
namespace Driver
open Slock.Elect

def natBytesLE : Nat → Nat → List UInt8
  | 0, _ => []
  | k + 1, n => (n % 256).toUInt8 :: natBytesLE k (n / 256)

def encodeAof (a : AofId) : List UInt8 :=
  natBytesLE 4 a.index ++ natBytesLE 4 a.offset ++ natBytesLE 8 a.time

def parseAof (s : String) : Option AofId := do
  let bs ← parseHexAux s.toList
  if bs.length == 16 then some (decodeAofId bs) else none

def showOpt : Option Nat → String
  | none => "-"
  | some h => toString h

def showPhase : Phase → String
  | .idle => "I" | .vote => "V" | .prop => "P" | .commit => "C" | .won => "W"

def showMember (m : Member) : String :=
  s!"{m.pid}.{m.cid}.{showOpt m.latch}/{showPhase m.phase}{showOpt m.voteHost}"

def showFull (m : Member) : String :=
  let vs := ".".intercalate (m.views.map (fun a => toHex (encodeAof a)))
  let rs := ".".intercalate (m.roles.map toString)
  s!"{m.pid}.{m.cid}.{showOpt m.latch}.{showOpt m.fromHost}.{m.pidx}.{m.saved}.{showPhase m.phase}{showOpt m.voteHost}.{toHex (encodeAof m.voteAof)}[{rs}][{vs}]"

def showOutcome (self : Bool) : Outcome → String
  | .none => "none"
  | .started => "started"
  | .waiting => "waiting"
  | .done => "-"
  | .vote r => if self then "self" else s!"v{r.host}.{r.weight}.{r.arbiter}.{toHex (encodeAof r.aof)}.{r.role}"
  | .prop r => if self then "self" else
      match r with
      | .ok old => s!"ok{old}" | .reject => "REJECT" | .aofid => "AOFID" | .badHost => "HOST" | .propId n => s!"PID{n}"
      | .role => "ROLE" | .status => "STATUS" | .offline => "OFFLINE"
  | .commit r => if self then "self" else
      match r with
      | .ok => "ok" | .badHost => "HOST" | .propId => "PID" | .commitId => "CID"

def dropS (s : String) (n : Nat) : String := String.ofList (s.toList.drop n)

def parsePair (s : String) : Option (Nat × Nat) :=
  match s.splitOn "." with
  | [a, b] => do pure ((← a.toNat?), (← b.toNat?))
  | _ => none

def parseEvent (s : String) : Option Event :=
  if s.startsWith "xq" then (parsePair (dropS s 2)).map (fun p => Event.dropReq p.1 p.2)
  else if s.startsWith "xr" then (parsePair (dropS s 2)).map (fun p => Event.dropRep p.1 p.2)
  else if s.startsWith "q" then (parsePair (dropS s 1)).map (fun p => Event.deliverReq p.1 p.2)
  else if s.startsWith "r" then (parsePair (dropS s 1)).map (fun p => Event.deliverRep p.1 p.2)
  else if s.startsWith "s" then (dropS s 1).toNat?.map Event.start
  else if s.startsWith "R" then (dropS s 1).toNat?.map Event.restart
  else if s.startsWith "S" then (dropS s 1).toNat?.map Event.save
  else none

def actor : Event → Nat
  | .start m | .restart m | .save m => m
  | .deliverReq _ t => t
  | .deliverRep c _ | .dropReq c _ | .dropRep c _ => c

def isSelfReq : Event → Bool
  | .deliverReq c t => c == t
  | _ => false

def listGet? {α : Type} : List α → Nat → Option α
  | [], _ => none
  | a :: _, 0 => some a
  | _ :: as, i + 1 => listGet? as i

def parseIdxList (pal : List AofId) (s : String) : Option (List AofId) :=
  (s.splitOn ".").mapM (fun x => do listGet? pal (← x.toNat?))

def parseMember (pal : List AofId) (s : String) : Option Member :=
  match s.splitOn ":" with
  | [rank, weight, arbiter, own, pid, cid, saved, roles, views, sts] => do
    let ownA ← listGet? pal (← own.toNat?)
    let rs ← (roles.splitOn ".").mapM String.toNat?
    let vs ← parseIdxList pal views
    let ss ← (sts.splitOn ".").mapM String.toNat?
    pure { rank := ← rank.toNat?, weight := ← weight.toNat?, arbiter := ← arbiter.toNat?, ownAof := ownA,
           pid := ← pid.toNat?, cid := ← cid.toNat?, saved := ← saved.toNat?, roles := rs, views := vs, statuses := ss }
  | _ => none

def parseSpec (s : String) : Option State :=
  match s.splitOn "/" with
  | pal :: ms =>
    if pal.startsWith "A=" then do
      let palette ← ((dropS pal 2).splitOn ",").mapM parseAof
      let members ← ms.mapM (parseMember palette)
      pure { members, net := [] }
    else none
  | _ => none

def runElect (s : State) : List String → List String → Option (List String)
  | [], acc => some acc.reverse
  | op :: ops, acc =>
    if op == "Z" then
      runElect s ops (("|".intercalate (s.members.map showFull)) :: acc)
    else
      match parseEvent op with
      | none => none
      | some e =>
        let (s', o) := step s e
        let line := showOutcome (isSelfReq e) o ++ "/" ++ showMember (getM s'.members (actor e))
        runElect s' ops (line :: acc)

def cmpToString (i : Int) : String := if i < 0 then "-1" else if i > 0 then "1" else "0"

def parseResp (idx : Nat) (s : String) : Option VoteResp :=
  match s.splitOn ":" with
  | [aof, rank, weight, arbiter] => do
    pure { host := idx, rank := ← rank.toNat?, weight := ← weight.toNat?, arbiter := ← arbiter.toNat?, aof := ← parseAof aof, role := 0 }
  | _ => none

def parseResps : Nat → List String → Option (List VoteResp)
  | _, [] => some []
  | i, s :: ss => do
    let r ← parseResp i s
    let rs ← parseResps (i + 1) ss
    pure (r :: rs)

def handleElect : List String → Option String
  | ["elect", spec, evs] => do
    let s ← parseSpec spec
    let ops := (evs.splitOn ";").filter (· ≠ "")
    let outs ← runElect s ops []
    pure (";".intercalate outs)
  | ["cmpaof", a, b] => do
    let x ← parseAof a
    let y ← parseAof b
    pure (cmpToString (compareAofId x y))
  | ["majcount", fl] =>
    if fl == "-" then some (toString (getMajorityMemberCount []))
    else do
      let fs ← (fl.splitOn ",").mapM String.toNat?
      pure (toString (getMajorityMemberCount fs))
  | ["votepick", rs] => do
    let resps ← parseResps 0 (rs.splitOn ",")
    match choose none resps with
    | none => pure "-"
    | some r => pure (toString r.host)
  | _ => none

end Driver
