import Driver.Util
/-! Driver commands: Elect (stub — replaced by the real handler). -/
namespace Driver

def handleElect : List String → Option String
  | _ => none

end Driver
