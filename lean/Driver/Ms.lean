import Driver.Util
import Slock.Model.MsWheel
/-! Driver command for M-MSWHEEL:  `msw <startSecond> <T>`  →  `fire` | `second:<deadline>`;  `mswf <startSecond> <T>` → `<next> defer:<seconds>` -/
namespace Driver
open Slock.Ms

def handleMs (toks : List String) : Option String :=
  match toks with
  | ["msw", s, t] =>
    match s.toNat?, t.toNat? with
    | some s, some t => some (showNext (afterPark s t))
    | _, _ => some "bad-op"
  | ["mswf", s, t] =>   -- a replicated millisecond hold on a follower: where it goes after the park, and the re-arm when it is reached
    match s.toNat?, t.toNat? with
    | some s, some t => some s!"{showNext (afterPark s t)} defer:{followerDefer 0}"
    | _, _ => some "bad-op"
  | "msw" :: _ => some "bad-op"
  | _ => none

end Driver
