import Driver.Util
import Slock.Model.MsWheel
/-! Driver command for M-MSWHEEL:  `msw <startSecond> <T>`  →  `fire` | `second:<deadline>` -/
namespace Driver
open Slock.Ms

def handleMs (toks : List String) : Option String :=
  match toks with
  | ["msw", s, t] =>
    match s.toNat?, t.toNat? with
    | some s, some t => some (showNext (afterPark s t))
    | _, _ => some "bad-op"
  | "msw" :: _ => some "bad-op"
  | _ => none

end Driver
