import Driver.Util
import Slock.Model.MsWheel
/-! Driver command for M-MSWHEEL:  `msw <startSecond> <T>`  →  `fire` | `second:<deadline>`;  `mswf <startSecond> <T>` → `<next> defer:<seconds>`;
`msupd <place wheel|long|parked|handed> <op u|r> <countsEq 0|1> <now> <expT> <unit s|ms> <val>` →
`ignored` | `second:<deadline>[:long]` | `reparked:<deadline>` | `stale:<deadline>:<fire|second:<d>>` -/
namespace Driver
open Slock.Ms

def handleMs (toks : List String) : Option String :=
  match toks with
  | ["msw", s, t] =>
    match s.toNat?, t.toNat? with
    | some s, some t => some (showNext (afterPark s t))
    | _, _ => some "bad-op"
  | ["mswf", s, t] =>   -- a replicated millisecond hold on a follower: where it goes after the park, and the re-arm when it is reached
    match s.toNat?, t.toNat? with
    | some s, some t => some s!"{showNext (afterPark s t)} defer:{followerDefer 0}"
    | _, _ => some "bad-op"
  | ["msupd", pl, op, ce, now, expT, u, val] =>
    match parsePlace pl, now.toNat?, expT.toNat?, val.toNat? with
    | some pl, some now, some expT, some val =>
      if (op = "u" || op = "r") && (ce = "0" || ce = "1") && (u = "s" || u = "ms") then
        some (showReterm now val (reterm pl (op = "u") (ce = "1") now expT (u = "ms") val))
      else some "bad-op"
    | _, _, _, _ => some "bad-op"
  | "msw" :: _ => some "bad-op"
  | "msupd" :: _ => some "bad-op"
  | _ => none

end Driver
