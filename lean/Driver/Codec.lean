import Driver.Util
import Slock.Model.Layout
import Slock.Gen.Layouts
/-! Driver commands for the wire layouts:
  enc <Layout> <old|-> <f0>,<f1>,…   → 64-byte hex
  dec <Layout> <64-byte hex>          → <f0>,<f1>,… | panic
  layouts                             → one line per layout: name consistent covers total
-/
namespace Driver
open Slock.Layout

def findLayout (n : String) : Option Layout := Slock.Gen.allLayouts.find? (fun l => l.name == n)

def parseFields (s : String) : Option Val :=
  if s == "" then some [] else (s.splitOn ",").mapM parseHex

def handleCodec : List String → Option String
  | ["enc", ln, old, fs] => do
    let L ← findLayout ln
    let o ← parseHex old
    let v ← parseFields fs
    -- Encode's own guard: a name longer than its cap is refused
    if L.strCaps.any (fun (f, n) => (v.getD f []).length > n) then pure "err"
    else pure (toHex (encode L v o))
  | ["dec", ln, b] => do
    let L ← findLayout ln
    let bs ← parseHex b
    match decode L bs with
    | .ok v => pure (",".intercalate (v.map showHex))
    | .err => pure "err"
    | .panic => pure "panic"
  | ["layouts"] =>
    some (" ".intercalate (Slock.Gen.allLayouts.map (fun l =>
      s!"{l.name}:{consistent l}:{covers l}:{total l}:{decodeSafe l}")))
  | _ => none

end Driver
