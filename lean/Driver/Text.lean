import Driver.Util
import Slock.Model.Text
/-! Driver commands for M-TEXT (byte strings are hex, `-` = empty):
  textparse <chunk>,<chunk>,…        → <cmd>|<cmd>|…;<done|pending|err|panic>   (cmd = <arg>,<arg>,… ; `()` = no args; `none` = no command)
  textbuild <arg>,<arg>,…  (or `()`)  → hex of BuildRequest
  textresp <0|1> <msg> <res>,… | ()   → hex of BuildResponse
-/
namespace Driver
open Slock.Text

def parseList (s : String) : Option (List (List UInt8)) :=
  if s == "()" then some [] else (s.splitOn ",").mapM parseHex

def showCmd (c : List Bytes) : String :=
  if c.isEmpty then "()" else ",".intercalate (c.map showHex)

def showCmds (cs : Cmds) : String :=
  if cs.isEmpty then "none" else "|".intercalate (cs.map showCmd)

def showStatus : Status → String
  | .done => "done" | .pending => "pending" | .err => "err" | .panic => "panic"

def handleTextParse : List String → Option String
  | ["textparse", cs] => do
    let chunks ← parseList cs
    let (cmds, st) := (parseAll chunks).outcome
    pure (showCmds cmds ++ ";" ++ showStatus st)
  | ["textbuild", as] => do
    let args ← parseList as
    pure (showHex (buildRequest args))
  | ["textresp", ok, msg, rs] => do
    let m ← parseHex msg
    let r ← parseList rs
    pure (showHex (buildResponse (ok == "1") m r))
  | _ => none

def handleText (toks : List String) : Option String :=
  handleTextParse toks

end Driver
