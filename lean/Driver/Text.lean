import Driver.Util
/-! Driver commands: Text (stub — replaced by the real handler). -/
namespace Driver

def handleText : List String → Option String
  | _ => none

end Driver
