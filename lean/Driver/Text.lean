import Driver.Util
import Slock.Model.Text
import Slock.Model.TextCmd
import Slock.Model.TextMd5
import Slock.Model.TextValue
/-! Driver commands for M-TEXT (byte strings are hex, `-` = empty):
  textparse <chunk>,<chunk>,…        → <cmd>|<cmd>|…;<done|pending|err|panic>   (cmd = <arg>,<arg>,… ; `()` = no args; `none` = no command)
  textrparse <chunk>,<chunk>,…       → ParseResponse loop: <argsType>:<arg>,<arg>,…|…;<done|pending|err|panic>
  textbuild <arg>,<arg>,…  (or `()`)  → hex of BuildRequest
  textresp <0|1> <msg> <res>,… | ()   → hex of BuildResponse
  lockkey <hex> / lockid <hex>        → 16-byte hex (ConvertString2LockKey / ConvertArgId2LockId)
  textlock <db> <ptimeout> <args>     → ConvertTextLockAndUnLockCommand: `ok <fields>` | `err:<class>` | `panic`
  textconv <db> <ptimeout> <args>     → ConvertTextKeyOperateValueCommand, same output
  textconvc <db> <ptimeout> <args>    → same, outcome class only (clock-dependent commands)
  textresult  <result> <flag> <lockid> <lcount> <count> <lrcount> <rcount> <data|nil> → hex written | panic
  textsresult … (same arguments)      → TextServerProtocol.WriteCommand
  thval <string|array|kv|props|prop:N> <frame> → the value reader's result on NewLockResultCommandDataFromOriginBytes(frame) | panic
-/
namespace Driver
open Slock.Text

def parseList (s : String) : Option (List (List UInt8)) :=
  if s == "()" then some [] else (s.splitOn ",").mapM parseHex

def showCmd (c : List Bytes) : String :=
  if c.isEmpty then "()" else ",".intercalate (c.map showHex)

def showCmds (cs : Cmds) : String :=
  if cs.isEmpty then "none" else "|".intercalate (cs.map showCmd)

def showStatus : Status → String
  | .done => "done" | .pending => "pending" | .err => "err" | .panic => "panic"

def handleTextParse : List String → Option String
  | ["textparse", cs] => do
    let chunks ← parseList cs
    let (cmds, st) := (parseAll chunks).outcome
    pure (showCmds cmds ++ ";" ++ showStatus st)
  | ["textrparse", cs] => do
    let chunks ← parseList cs
    let (rs, st) := (parseAllR chunks).outcomeR
    let shown := if rs.isEmpty then "none" else "|".intercalate (rs.map (fun r => s!"{r.1}:{showCmd r.2}"))
    pure (shown ++ ";" ++ showStatus st)
  | ["textbuild", as] => do
    let args ← parseList as
    pure (showHex (buildRequest args))
  | ["textresp", ok, msg, rs] => do
    let m ← parseHex msg
    let r ← parseList rs
    pure (showHex (buildResponse (ok == "1") m r))
  | _ => none

def showId : IdV → String
  | .bytes b => showHex b
  | .req => "req"
  | .proto => "proto"
  | .gen => "gen"

def showHdr (h : Hdr) : String :=
  s!"ct={h.commandType} f={h.flag} db={h.dbId} id={showId h.lockId} key={showHex h.lockKey} tf={h.timeoutFlag} t={h.timeout} ef={h.expriedFlag} e={h.expried} c={h.count} rc={h.rcount}"

def showData : DataV → String
  | .none => "nil"
  | .raw b => showHex b
  | .exec st h d => s!"x{st}({showHdr h} d={showData d})"

def showConv (classOnly : Bool) : Conv → String
  | .ok c => if classOnly then "ok" else s!"ok {showHdr c.hdr} d={showData c.data}"
  | .err e => "err:" ++ e
  | .panic => "panic"

def parseResult (toks : List String) : Option ResultCmd :=
  match toks with
  | [r, f, id, lc, c, lrc, rc, d] => do
    let idb ← parseHex id
    let data ← if d == "nil" then pure none else (parseHex d).map some
    pure { result := (← r.toNat?), flag := (← f.toNat?), lockId := idb, lcount := (← lc.toNat?), count := (← c.toNat?),
           lrcount := (← lrc.toNat?), rcount := (← rc.toNat?), data := data }
  | _ => none

def showRender : Render → String
  | .ok b => showHex b
  | .panic => "panic"

def handleTextCmd : List String → Option String
  | ["lockkey", k] => do pure (showHex (convertString2LockKey Md5.sum (← parseHex k)))
  | ["lockid", k] => do pure (showHex (convertArgId2LockId Md5.sum (← parseHex k)))
  | ["textlock", db, pt, as] => do
    let args ← parseList as
    pure (showConv false (convertLock { dbId := (← db.toNat?), timeout := (← pt.toNat?), md5 := Md5.sum } args))
  | ["textconv", db, pt, as] => do
    let args ← parseList as
    pure (showConv false (convertKeyOp { dbId := (← db.toNat?), timeout := (← pt.toNat?), md5 := Md5.sum } 0 args))
  | ["textconvc", db, pt, as] => do
    let args ← parseList as
    pure (showConv true (convertKeyOp { dbId := (← db.toNat?), timeout := (← pt.toNat?), md5 := Md5.sum } 0 args))
  | "textresult" :: rest => do pure (showRender (renderLockResult (← parseResult rest)))
  | "textsresult" :: rest => do pure (showRender (renderServerResult (← parseResult rest)))
  | _ => none

def insertKV (k v : String) : List (String × String) → List (String × String)
  | [] => [(k, v)]
  | (k', v') :: rest =>
    if k == k' then (k, v) :: rest
    else if k < k' then (k, v) :: (k', v') :: rest
    else (k', v') :: insertKV k v rest

def showList (xs : List String) : String := if xs.isEmpty then "empty" else ",".intercalate xs

def handleTextValue : List String → Option String
  | ["thval", what, frame] => do
    let d ← parseHex frame
    match what with
    | "string" =>
      match Slock.TextV.getString d with
      | .ok b => pure (showHex b)
      | .panic => pure "panic"
    | "array" =>
      match Slock.TextV.getArray d with
      | .ok none => pure "nil"
      | .ok (some vs) => pure (showList (vs.map showHex))
      | .panic => pure "panic"
    | "kv" =>
      match Slock.TextV.getKV d with
      | .ok none => pure "nil"
      | .ok (some kvs) =>
        let m := kvs.foldl (fun acc (kv : List UInt8 × List UInt8) => insertKV (showHex kv.1) (showHex kv.2) acc) []
        pure (showList (m.map (fun kv => kv.1 ++ "=" ++ kv.2)))
      | .panic => pure "panic"
    | "props" =>
      match Slock.TextV.getProps d with
      | .ok none => pure "nil"
      | .ok (some ps) => pure (showList (ps.map (fun p => s!"{p.1}:{showHex p.2}")))
      | .panic => pure "panic"
    | w =>
      if w.startsWith "prop:" then
        match (w.drop 5).toNat? with
        | none => none
        | some code =>
          match Slock.TextV.getProp d code with
          | .ok none => pure "none"
          | .ok (some v) => pure (showHex v)
          | .panic => pure "panic"
      else none
  | _ => none

def handleText (toks : List String) : Option String :=
  handleTextParse toks <|> handleTextCmd toks <|> handleTextValue toks

end Driver
