import Driver.Util
/-! Driver commands: Repl (stub — replaced by the real handler). -/
namespace Driver

def handleRepl : List String → Option String
  | _ => none

end Driver
