import Driver.Util
import Slock.Model.Repl
/-! Driver commands for the replication buffer queue and the SYNC handshake model (C09).

  replq <initial size> <max size> <op>;<op>;…        → <obs>;<obs>;…
ops (cursor names are decimal numbers):
  push:<id>:<ord>:<dlen> → ok            cursor:<n> → ok   (NewReplicationBufferQueueCursor)
  add:<n> rm:<n> → ok                    (AddPoll / RemovePoll)
  pop:<n> head:<n> → ok:<id>:<ord>:<dlen>:<seq> | eof | oob
  search:<n>:<id> → ok:… | eof | nf      ack:<n> → ok | noop   (SendProcess: writed=true; currentItem.pollIndex++)
  st → <seq>.<used>.<bufferSize>.<pollCount>.<dupCount>/L<sid>,<seq>,<pollCount>,<pollIndex>,<dlen>|…/F<sid>,<seq>,<pollCount>,<pollIndex>|…
An unknown cursor prints `nocursor`; a panic prints `panic` and ends the line.

  replsync <initial size> <max size> <ev>;<ev>;…     → <obs>;<obs>;…      (handshake model, `Slock.Repl.Sync` in Model/Repl.lean)
events: append[:<dlen>] → ok      connect:<f> → full:<H> | resume:<id> | end:<id> | notfound-full:<H> | noop
  start:<f> → ok | noop   (the client's "started" message: AddPoll; file phase / stream begins)
  deliver:<f> → file:<id> | filesdone | send:<id> | pop:<id> | idle | oob | noop        cut:<f> → ok | noop
  restart:<f> → ok (follower restarted on the same dir)     wipe:<f> → ok (… on an empty dir)
  st → n=<leader records> f<k>=<curId>/<conn>/[applied ids] …
  setid:<f>:<id> → ok   (driver-only: follower f arrives with a directory whose last applied record is <id>; used by the process-level differential)
-/
namespace Driver
open Slock.Repl

def rShowItemL (it : Item) : String := s!"{it.sid},{it.seq},{it.pollCount},{it.pollIndex},{it.dlen}"
def rShowItemF (it : Item) : String := s!"{it.sid},{it.seq},{it.pollCount},{it.pollIndex}"

def rShowQ (q : Q) : String :=
  s!"{q.seq}.{q.used}.{q.bufSize}.{q.pollCount}.{q.dupCount}/L" ++ "|".intercalate (q.live.map rShowItemL)
    ++ "/F" ++ "|".intercalate (q.free.map rShowItemF)

def rShowRes (r : PopRes) (c : Cursor) : String :=
  match r with
  | .ok => s!"ok:{c.bufId}:{c.bufOrd}:{c.dlen}:{c.seq}"
  | .eof => "eof"
  | .oob => "oob"
  | .nf => "nf"
  | .panic => "panic"

def rShowObs : Obs → String
  | .done => "ok"
  | .res r c => rShowRes r c
  | .acked b => if b then "ok" else "noop"
  | .noCursor => "nocursor"

def rParseOp (op : String) : Option Op :=
  match op.splitOn ":" with
  | ["push", a, b, c] => do pure (.push (← a.toNat?) (← b.toNat?) (← c.toNat?))
  | ["cursor", n] => do pure (.cursor (← n.toNat?))
  | ["add", n] => do pure (.add (← n.toNat?))
  | ["rm", n] => do pure (.rm (← n.toNat?))
  | ["pop", n] => do pure (.pop (← n.toNat?))
  | ["ack", n] => do pure (.ack (← n.toNat?))
  | ["head", n] => do pure (.head (← n.toNat?))
  | ["search", n, i] => do pure (.search (← n.toNat?) (← i.toNat?))
  | _ => none

def rRun : Sys → List String → List String → List String
  | _, [], acc => acc.reverse
  | s, op :: ops, acc =>
    if op == "st" then rRun s ops (rShowQ s.q :: acc)
    else match rParseOp op with
      | none => ("bad-op" :: acc).reverse
      | some o =>
        let r := step s o
        match r.2 with
        | .res .panic _ => ("panic" :: acc).reverse
        | ob => rRun r.1 ops (rShowObs ob :: acc)

def rShowConn : Conn → String
  | .off => "off"
  | .wait none => "wait.resume"
  | .wait (some h) => s!"wait.full.{h}"
  | .files h p => s!"files.{h}.{p}"
  | .stream => "stream"

def rShowFol (p : Nat × Fol) : String :=
  s!"f{p.1}={p.2.curId}/{rShowConn p.2.conn}/[" ++ ",".intercalate (p.2.log.map toString) ++ "]"

def rShowSync (s : Sync) : String :=
  s!"n={s.log.length} " ++ " ".intercalate (s.fols.map rShowFol)

def rShowSObs : SObs → String
  | .ok => "ok"
  | .full h => s!"full:{h}"
  | .retryFull h => s!"notfound-full:{h}"
  | .resume i => s!"resume:{i}"
  | .atEnd i => s!"end:{i}"
  | .file i => s!"file:{i}"
  | .filesDone => "filesdone"
  | .send i => s!"send:{i}"
  | .popped i => s!"pop:{i}"
  | .idle => "idle"
  | .outOfBuf => "oob"
  | .noop => "noop"

def rParseEv (e : String) : Option Ev :=
  match e.splitOn ":" with
  | ["append", d] => do pure (.append (← d.toNat?))
  | ["append"] => some (.append 0)
  | ["connect", n] => do pure (.connect (← n.toNat?))
  | ["start", n] => do pure (.start (← n.toNat?))
  | ["restart", n] => do pure (.restartSame (← n.toNat?))
  | ["wipe", n] => do pure (.restartEmpty (← n.toNat?))
  | ["deliver", n] => do pure (.deliver (← n.toNat?))
  | ["cut", n] => do pure (.cut (← n.toNat?))
  | _ => none

def rSRun : Sync → List String → List String → List String
  | _, [], acc => acc.reverse
  | s, e :: es, acc =>
    if e == "st" then rSRun s es (rShowSync s :: acc)
    else match e.splitOn ":" with
      | ["setid", f, i] =>
        -- driver-only: follower f comes with a (stale) directory whose last applied record is i (0 = empty directory)
        match f.toNat?, i.toNat? with
        | some f, some i =>
          rSRun { s with fols := setF s.fols f { Fol.new with curId := i, log := List.range' 1 i } } es ("ok" :: acc)
        | _, _ => ("bad-op" :: acc).reverse
      | _ =>
        match rParseEv e with
        | none => ("bad-op" :: acc).reverse
        | some ev => let r := sstep s ev; rSRun r.1 es (rShowSObs r.2 :: acc)

def handleRepl : List String → Option String
  | ["replsync", b, m, evs] => do
    let b ← b.toNat?
    let m ← m.toNat?
    some (";".intercalate (rSRun (Sync.init b m) ((evs.splitOn ";").filter (· ≠ "")) []))
  | ["replq", b, m] => do
    let _ ← b.toNat?
    let _ ← m.toNat?
    some ""
  | ["replq", b, m, ops] => do
    let b ← b.toNat?
    let m ← m.toNat?
    some (";".intercalate (rRun (Sys.init b m) ((ops.splitOn ";").filter (· ≠ "")) []))
  | _ => none

end Driver
