import Driver.Util
import Slock.Model.Ack
/-! Driver command for M-ACK (require-ack locks, C11):
  ack <followers> <mode 0=all|1=majority> <now0> <ev>;<ev>;…      one whole history per line
events:  L|U req conn flag lockId key tflag timeout eflag expried count rcount <frame hex|->   |  T  |  P key  |  PW key  |  A id 0|1
         |  K id follower 0|1  |  R 0|1  |  X 0|1  |  D ids|-  |  F ids|-  |  S
output: per event, `;`-joined: the replies `conn:req:result:lcount:lrcount:data` `,`-joined (`-` if none); S prints the state.
-/
namespace Driver
open Slock.Ack

def ackShowData : Option Bytes → String
  | some b => showHex b
  | none => "-"

def ackShowReply (r : Reply) : String :=
  s!"{r.conn}:{r.req}:{r.result}:{r.lcount}:{r.lrcount}:{ackShowData r.data}"

def ackShowReplies (rs : List Reply) : String :=
  if rs.isEmpty then "-" else ",".intercalate (rs.map ackShowReply)

def ackU32 (i : Int) : Nat := (i % 4294967296).toNat

def ackShowKey (db : DB) (k : Key) : Option String :=
  let hs := db.holders k.key
  let ws := db.waiters k.key
  let d := getData k.cell
  if k.locked == 0 && !k.waited && hs.isEmpty && ws.isEmpty && d.isNone then none
  else
    let h := " ".intercalate (hs.map (fun r => s!"{r.cmd.lockId}.{r.depth}.{r.ack}.{if r.isAof then 1 else 0}.{r.cmd.req}"))
    let w := " ".intercalate (ws.map (fun r => s!"{r.cmd.lockId}.{r.cmd.req}"))
    some s!"k{k.key}={k.locked}/{if k.waited then 1 else 0}/[{h}]/[{w}]/{ackShowData d}"

def ackKeyIds (db : DB) : List Nat :=
  sortBySeq id ((db.keys.map (·.key) ++ db.recs.map (·.cmd.key)).eraseDups)

def ackShowDB (db : DB) : String :=
  let ks := ackKeyIds db
  let parts := ks.filterMap (fun k => ackShowKey db (db.getKey k))
  let js := ks.filterMap (fun k => let n := (db.journal.filter (·.key == k)).length; if n > 0 then some s!"{k}:{n}" else none)
  let c := db.ctr
  "|".intercalate parts ++ "|" ++
    s!"T={db.tab.length}/{db.tab.length} J=[{" ".intercalate js}] lc={ackU32 c.lockCount} uc={ackU32 c.unLockCount} ld={ackU32 c.lockedCount} wc={ackU32 c.waitCount} to={ackU32 c.timeoutedCount} ex={ackU32 c.expriedCount} ue={ackU32 c.unlockErrorCount}"

def ackParseCmd (ts : List String) : Option Cmd :=
  match ts with
  | [req, conn, flag, lockId, key, tflag, timeout, eflag, expried, count, rcount, d] => do
    let req ← req.toNat?; let conn ← conn.toNat?; let flag ← flag.toNat?; let lockId ← lockId.toNat?; let key ← key.toNat?
    let tflag ← tflag.toNat?; let timeout ← timeout.toNat?; let eflag ← eflag.toNat?; let expried ← expried.toNat?
    let count ← count.toNat?; let rcount ← rcount.toNat?
    if eflag != 0 then none
    let data ← (if d == "-" then some none else (parseHexAux d.toList).map some)
    pure { req, conn, flag, lockId, key, tflag, timeout, expried, count, rcount, data }
  | _ => none

def ackParseIds (s : String) : Option (List Nat) :=
  if s == "-" then some [] else (s.splitOn ",").mapM String.toNat?

def ackParseEv (op : String) : Option (Option Ev) :=
  match (op.splitOn " ").filter (· ≠ "") with
  | "L" :: ts => do let c ← ackParseCmd ts; if c.lockOk then pure (some (.lock c)) else none
  | "U" :: ts => do let c ← ackParseCmd ts; if c.unlockOk then pure (some (.unlock c)) else none
  | ["T"] => some (some .tick)
  | ["P", k] => do let k ← k.toNat?; pure (some (.push k))
  | ["PW", k] => do let k ← k.toNat?; pure (some (.pushW k))
  | ["A", i, b] => do let i ← i.toNat?; pure (some (.aofed i (b == "1")))
  | ["K", i, f, b] => do let i ← i.toNat?; let f ← f.toNat?; pure (some (.acked i f (b == "1")))
  | ["R", b] => some (some (.role (b == "1")))
  | ["X", b] => some (some (.closed (b == "1")))
  | ["D", o] => do let o ← ackParseIds o; pure (some (.demote o))
  | ["F", o] => do let o ← ackParseIds o; pure (some (.flush o))
  | ["S"] => some none
  | _ => none

def runAck (db : DB) : List String → List String → Option (List String)
  | [], acc => some acc.reverse
  | op :: ops, acc =>
    match ackParseEv op with
    | some (some e) => let s := step db e; runAck s.1 ops (ackShowReplies s.2 :: acc)
    | some none => runAck db ops (ackShowDB db :: acc)
    | none => none

def handleAck (toks : List String) : Option String :=
  match toks with
  | "ack" :: f :: m :: now0 :: rest =>
    match f.toNat?, m.toNat?, now0.toNat? with
    | some f, some m, some n =>
      let ops := ((" ".intercalate rest).splitOn ";").filter (· ≠ "")
      match runAck (DB.init { followers := f, majority := m == 1 } n) ops [] with
      | some outs => some (";".intercalate outs)
      | none => some "out-of-subset"
    | _, _, _ => some "bad-ack-line"
  | _ => none

end Driver
