import Driver.Util
/-! Driver command for M-ACK (require-ack locks): placeholder, replaced by the component's author. -/
namespace Driver

def handleAck (toks : List String) : Option String :=
  match toks with
  | "ack" :: _ => some "unimplemented"
  | _ => none

end Driver
