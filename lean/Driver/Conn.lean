import Driver.Util
/-! Driver commands: Conn (stub — replaced by the real handler). -/
namespace Driver

def handleConn : List String → Option String
  | _ => none

end Driver
