import Driver.Util
import Slock.Model.Conn
/-! Driver command for M-CONN (connection lifetimes, wills, reply routing):

  conn <event>;<event>;…        one whole lifetime script per line; connections are numbered 0,1,… in `o` order
events (arguments after the listed ones are descriptive and ignored):
  o b|t            open a binary / text connection              → ok
  i <c> <cid>      INIT with client id                          → i0 | i1 (id was free / already registered) | ign
  w <c> <tok> 0|1 [0|1]  register a will (first bit: the engine answers it in the submitting call; second bit:
                   the protocol answers it itself — unknown db — and it never reaches the engine)   → ok | ign
  q <c> <tok>      a lock/unlock request whose reply is addressed through c's proxy       → ok | ign
  d <tok>          the engine answers token tok                 → ><conn> | drop | lost+<close result>
  x <c> c|e|s|q    connection ends (client EOF / protocol error / server side / binary QUIT command)
                   → W[tok:res,…] (wills executed in order; res = q queued in the engine | ><conn> | drop,
                     prefixed with s when the protocol answered the will itself)
                     | crash | defer (blocked text connection: noticed at the next write) | noop | ign
  a <c>            binary ADMIN command: a nested text protocol (a new record, numbered like an `o`) takes over c's stream → ok | ign
  t                one second of server time (nothing for this model)  → -
-/
namespace Driver
open Slock.Conn

def showDest : Dest → String
  | .to d => s!">{d}"
  | .dropped | .filtered => "drop"
  | .lost _ => "lost"
  | .loop => "crash"

def showCloseRes (res : List WillRes) (f : Option Fatal) : String :=
  match f with
  | some .crash => "crash"
  | none =>
    "W[" ++ ",".intercalate (res.map (fun p => s!"{p.tok}:" ++ (if p.self then "s" else "") ++ (match p.reply with | none => "q" | some d => showDest d))) ++ "]"

def showConnOut : Out → String
  | .opened _ => "ok"
  | .ignored => "ign"
  | .inited t => s!"i{t}"
  | .ok => "ok"
  | .routed d => showDest d
  | .routedClosed d res f => showDest d ++ "+" ++ showCloseRes res f
  | .closed res f => showCloseRes res f
  | .deferred => "defer"
  | .noop => "noop"

def parseConnEvent (ts : List String) : Option (Option Event) :=
  match ts with
  | ["t"] => some none
  | "o" :: "b" :: _ => some (some (.open .binary))
  | "o" :: "t" :: _ => some (some (.open .text))
  | "i" :: c :: cid :: _ => do pure (some (.init (← c.toNat?) (← cid.toNat?)))
  | "w" :: c :: tok :: imm :: sf :: _ => do pure (some (.will (← c.toNat?) (← tok.toNat?) (imm == "1") (sf == "1")))
  | "w" :: c :: tok :: imm :: _ => do pure (some (.will (← c.toNat?) (← tok.toNat?) (imm == "1") false))
  | "q" :: c :: tok :: _ => do pure (some (.request (← c.toNat?) (← tok.toNat?)))
  | "a" :: c :: _ => do pure (some (.admin (← c.toNat?)))
  | "d" :: tok :: _ => do pure (some (.deliver (← tok.toNat?)))
  | "x" :: c :: cause :: _ => do
    let k ← (match cause with | "c" => some Cause.client | "e" => some Cause.protoErr | "s" => some Cause.server | "q" => some Cause.quit | _ => none)
    pure (some (.close (← c.toNat?) k))
  | _ => none

def runConn (s : Server) : List String → List String → Option (List String)
  | [], acc => some acc.reverse
  | ev :: evs, acc =>
    match parseConnEvent ((ev.splitOn " ").filter (· ≠ "")) with
    | none => none
    | some none => runConn s evs ("-" :: acc)
    | some (some e) =>
      let r := step s e
      runConn r.1 evs (showConnOut r.2 :: acc)

def handleConn : List String → Option String
  | "conn" :: rest => do
    let evs := ((" ".intercalate rest).splitOn ";").filter (fun e => ((e.splitOn " ").filter (· ≠ "")) ≠ [])
    let outs ← runConn {} evs []
    pure (";".intercalate outs)
  | _ => none

end Driver
