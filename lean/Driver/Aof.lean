import Driver.Util
/-! Driver commands: Aof (stub — replaced by the real handler). -/
namespace Driver

def handleAof : List String → Option String
  | _ => none

end Driver
