import Driver.Util
import Slock.Model.Aof
/-! Driver commands for M-AOF.

* `aofload <cfgBuf> <now> <rechex>:<dathex|x> …` → `<hex64>/<blobhex|n>,… ;ok|err` (records handed to the engine by `LoadAofFiles`)
* `aofappend <writerBuf> <readerBuf> <rechex>:<dathex|x> <hex64>/<blobhex|n>,…` → `<rechex>:<dathex>` (start-up load — which cuts a
  torn two-file tail —, reopen in append mode, write, close)
* `aofflusherr <cfgBuf> <recsA> <recsB>` → `<rechex>:<dathex>`: recsA written, the flush fails at the record write, recsB written + flushed
* `aofwrites <cfgBuf> <hex64>/<blobhex|n>,…` → `rec:dat,…` sizes after each writer call
* `aofdl <eflag> <E> <grant> <journal> <reload>` → `commandTime age stored skipped restoredExpried`
* `aofreload <nowRel> <journal>` → `reload` of the journal at second nowRel (what a restart does): `<holds>|<values>#<db>.<key>:<class>,…`
  (`~` = value not predicted: a millisecond hold of the key ended during the reload); the classes name the first record per key
  that the restart treats differently from what the journal means
* `aofjournal <L|U>.<db>.<key>.<id>.<flag>.<aofFlag>.<eflag>.<stored>.<ctRel>.<count>.<rcount>.<valuehex|n>,…` → `recover` of the
  journal: `<db>.<key>.<id>.<depth>.<count>.<rcount>.<eflag>.<tflag>.<deadline|inf>;…|<db>.<key>=<valuehex>;…`
* `aofkeep <now> <view> <hex64>/<blob|n>` → 1|0: the compaction keeps the record (`keepRule`, after the expired-record filter)
* `aofcompact <cfgBuf> <cur> <now> <view> <name>=<hex> …` → directory after the tmp file is written and after each later
  file-system mutation of a compaction with `keep = keepRule now view`; `<view>` = `;`-separated keys
  `<db>,<keyhex>,<valuehex|n>,<lockIdhex>:<deadline|inf>:<count>:<rcount>:<tflag>+…`
* `aofrecover <cfgBuf> <now> <name>=<hex> …` → records recovered at start-up, or `finderr`
-/
namespace Driver
open Slock.Aof

def showRec (r : Rec) : String :=
  toHex r.buf ++ "/" ++ (match r.data with | none => "n" | some d => showHex d)

def showRecs (rs : List Rec) : String :=
  if rs.isEmpty then "-" else ",".intercalate (rs.map showRec)

def parseImg (s : String) : Option FileImg :=
  match s.splitOn ":" with
  | [a, b] => do
    let rec ← parseHex a
    if b == "x" then pure ⟨rec, none⟩ else do
      let d ← parseHex b
      pure ⟨rec, some d⟩
  | _ => none

def parseRec (s : String) : Option Rec :=
  match s.splitOn "/" with
  | [a, b] => do
    let buf ← parseHex a
    if b == "n" then pure ⟨buf, none⟩ else do
      let d ← parseHex b
      pure ⟨buf, some d⟩
  | _ => none

def parseRecs (s : String) : Option (List Rec) :=
  if s == "-" then some [] else (s.splitOn ",").mapM parseRec

def parseDirEntry (s : String) : Option (FName × Bytes) :=
  match s.splitOn "=" with
  | [a, b] => (parseHex b).map (fun x => (parseName a, x))
  | _ => none

def parseDir (ts : List String) : Option Dir :=
  match ts with
  | ["-"] => some []
  | _ => ts.mapM parseDirEntry

def sortDir (d : List (String × Bytes)) : List (String × Bytes) := (d.toArray.qsort (fun a b => a.1 < b.1)).toList

def showDir (d : Dir) : String :=
  if d.isEmpty then "-" else " ".intercalate ((sortDir (d.map (fun f => (f.1.show, f.2)))).map (fun f => f.1 ++ "=" ++ showHex f.2))

def parseHold (s : String) : Option HoldView :=
  match s.splitOn ":" with
  | [id, d, c, r, t] => do
    let id ← parseHex id
    let c ← c.toNat?
    let r ← r.toNat?
    let t ← t.toNat?
    if d == "inf" then pure ⟨id, none, c, r, t⟩ else do
      let d ← d.toInt?
      pure ⟨id, some d, c, r, t⟩
  | _ => none

def parseKeyView (s : String) : Option KeyView :=
  match s.splitOn "," with
  | [db, key, v, hs] => do
    let db ← db.toNat?
    let key ← parseHex key
    let holds ← if hs == "" then some [] else (hs.splitOn "+").mapM parseHold
    if v == "n" then pure ⟨db, key, none, holds⟩ else do
      let v ← parseHex v
      pure ⟨db, key, some v, holds⟩
  | _ => none

def parseView (s : String) : Option (List KeyView) :=
  if s == "-" then some [] else (s.splitOn ";").mapM parseKeyView

def parseHexNat (s : String) : Option Nat :=
  if s.isEmpty then none else s.toList.foldl (fun acc c => acc.bind (fun n => (hexVal c).map (fun d => n * 16 + d))) (some 0)

def showHexNat (n : Nat) : String :=
  if n < 16 then String.singleton (hexDigit n) else
    String.ofList ((Nat.toDigits 16 n))

def parseJRec (s : String) : Option JRec :=
  match s.splitOn "." with
  | [k, db, key, id, flag, aflag, eflag, stored, ct, count, rcount, v] => do
    let db ← db.toNat?
    let key ← key.toNat?
    let id ← id.toNat?
    let flag ← parseHexNat flag
    let aflag ← parseHexNat aflag
    let eflag ← parseHexNat eflag
    let stored ← stored.toNat?
    let ct ← ct.toInt?
    let count ← count.toNat?
    let rcount ← rcount.toNat?
    let data ← if v == "n" then some none else (parseHex v).map some
    pure ⟨k == "L", db, key, id, flag, aflag, eflag, stored, ct, count, rcount, data⟩
  | _ => none

def parseJournal (s : String) : Option (List JRec) :=
  if s == "-" then some [] else (s.splitOn ",").mapM parseJRec

def showJState (st : JState) : String :=
  let hs := (st.holds.toArray.qsort (fun a b => a.db < b.db || (a.db == b.db && (a.key < b.key || (a.key == b.key && a.id < b.id))))).toList
  let vs := (st.values.toArray.qsort (fun a b => a.1.1 < b.1.1 || (a.1.1 == b.1.1 && a.1.2 < b.1.2))).toList
  let h := if hs.isEmpty then "-" else ";".intercalate (hs.map (fun h =>
    s!"{h.db}.{h.key}.{h.id}.{h.depth}.{h.count}.{h.rcount}.{showHexNat h.eflag}.{showHexNat h.tflag}." ++ (match h.deadline with | none => "inf" | some d => toString d)))
  let v := if vs.isEmpty then "-" else ";".intercalate (vs.map (fun p => s!"{p.1.1}.{p.1.2}=" ++ showHex p.2))
  h ++ "|" ++ v

def showImg (rec dat : Bytes) : String := showHex rec ++ ":" ++ showHex dat

def handleAof : List String → Option String
  | "aofload" :: cfg :: now :: files => do
    let cfg ← cfg.toNat?
    let now ← now.toInt?
    let imgs ← files.mapM parseImg
    let (rs, ok) := loadFiles cfg now imgs
    pure (showRecs rs ++ ";" ++ (if ok then "ok" else "err"))
  | ["aofappend", cfg, rcfg, img, more] => do
    let cfg ← cfg.toNat?
    let rcfg ← rcfg.toNat?
    let img ← parseImg img
    let more ← parseRecs more
    let (r, d) := appendAfterRestart cfg rcfg img.log img.dat more
    pure (showImg r d)
  | ["aofflusherr", cfg, a, b] => do
    let cfg ← cfg.toNat?
    let a ← parseRecs a
    let b ← parseRecs b
    let (r, d) := failedFlushThenWrite cfg a b
    pure (showImg r d)
  | ["aofwrites", cfg, recs] => do
    let cfg ← cfg.toNat?
    let recs ← parseRecs recs
    pure (",".intercalate ((writeSizes cfg recs).map (fun p => toString p.1 ++ ":" ++ toString p.2)))
  | ["aofdl", ef, e, s, c, n] => do
    let ef ← ef.toNat?
    let e ← e.toNat?
    let s ← s.toInt?
    let c ← c.toInt?
    let n ← n.toInt?
    let (ct, age, rem, sk, re) := journalReload ef e s c n
    pure (s!"{ct} {age} {rem} {if sk then 1 else 0} {re}")
  | ["aofreload", now, j] => do
    let now ← now.toInt?
    let rs ← parseJournal j
    let st := reload now rs
    let holds := st.flatMap (fun k => k.holds.map (fun h => (k.db, k.key, h)))
    let hs := (holds.toArray.qsort (fun a b => a.1 < b.1 || (a.1 == b.1 && (a.2.1 < b.2.1 || (a.2.1 == b.2.1 && a.2.2.id < b.2.2.id))))).toList
    let ks := ((st.filter (fun k => !k.holds.isEmpty || k.value.isSome || k.unsure)).toArray.qsort (fun a b => a.db < b.db || (a.db == b.db && a.key < b.key))).toList
    let h := if hs.isEmpty then "-" else ";".intercalate (hs.map (fun x =>
      s!"{x.1}.{x.2.1}.{x.2.2.id}.{x.2.2.depth}.{x.2.2.count}.{x.2.2.rcount}.{showHexNat (x.2.2.eflag &&& 0x4440)}.{showHexNat (x.2.2.tflag &&& 0x1010)}." ++
        (match x.2.2.deadline with | none => "inf" | some d => toString d)))
    let v := if ks.isEmpty then "-" else ";".intercalate (ks.map (fun k => s!"{k.db}.{k.key}=" ++
      (if k.unsure then "~" else match k.value with | none => "n" | some b => showHex b)))
    let cls := classifyReplay now rs
    let c := if cls.isEmpty then "-" else ",".intercalate (cls.map (fun p => s!"{p.1.1}.{p.1.2}:{p.2.name}"))
    pure (h ++ "|" ++ v ++ "#" ++ c)
  | ["aofjournal", j] => do
    let rs ← parseJournal j
    pure (showJState (recover rs))
  | ["aofkeep", now, view, rec] => do
    let now ← now.toInt?
    let view ← parseView view
    let r ← parseRec rec
    pure (if keepRule now view r && !(skipped r.buf now) then "1" else "0")
  | "aofcompact" :: cfg :: cur :: now :: view :: dir => do
    let cfg ← cfg.toNat?
    let cur ← cur.toNat?
    let now ← now.toInt?
    let view ← parseView view
    let d ← parseDir dir
    let steps := compactionSteps cfg now (keepRule now view) cur d
    -- observation points of the harness: after the tmp file is written, then after every remove / rename
    let nWrite := steps.length - (steps.filter (fun o => match o with | .remove _ => true | .rename _ _ => true | _ => false)).length
    let pts := (List.range (steps.length - nWrite + 1)).map (· + nWrite)
    pure (" | ".intercalate (pts.map (fun i => showDir (applyPrefix i steps d))))
  | "aofrecover" :: cfg :: now :: dir => do
    let cfg ← cfg.toNat?
    let now ← now.toInt?
    let d ← parseDir dir
    match recoverDir cfg now d with
    | none => pure "err"
    | some rs => pure (showRecs rs ++ ";ok")
  | _ => none

end Driver
