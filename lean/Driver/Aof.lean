import Driver.Util
import Slock.Model.Aof
/-! Driver commands for M-AOF.

* `aofload <cfgBuf> <now> <rechex>:<dathex|x> …` → `<hex64>/<blobhex|n>,… ;ok|err` (records handed to the engine by `LoadAofFiles`)
* `aofappend <cfgBuf> <rechex>:<dathex|x> <hex64>/<blobhex|n>,…` → `<rechex>:<dathex>` (reopen in append mode, write, close)
* `aofwrites <cfgBuf> <hex64>/<blobhex|n>,…` → `rec:dat,…` sizes after each writer call
* `aofdl <eflag> <E> <grant> <journal> <reload>` → `commandTime age stored skipped restoredExpried`
* `aofcompact <cfgBuf> <cur> <keepIds,…|-> <name>=<hex> …` → directory after the tmp file is written and after each later
  file-system mutation of a compaction; `keep r` = hex of bytes 20..52 of `r` (db, LockId, key) is in the list
* `aofrecover <cfgBuf> <now> <name>=<hex> …` → records recovered at start-up, or `finderr`
-/
namespace Driver
open Slock.Aof

def showRec (r : Rec) : String :=
  toHex r.buf ++ "/" ++ (match r.data with | none => "n" | some d => showHex d)

def showRecs (rs : List Rec) : String :=
  if rs.isEmpty then "-" else ",".intercalate (rs.map showRec)

def parseImg (s : String) : Option FileImg :=
  match s.splitOn ":" with
  | [a, b] => do
    let rec ← parseHex a
    if b == "x" then pure ⟨rec, none⟩ else do
      let d ← parseHex b
      pure ⟨rec, some d⟩
  | _ => none

def parseRec (s : String) : Option Rec :=
  match s.splitOn "/" with
  | [a, b] => do
    let buf ← parseHex a
    if b == "n" then pure ⟨buf, none⟩ else do
      let d ← parseHex b
      pure ⟨buf, some d⟩
  | _ => none

def parseRecs (s : String) : Option (List Rec) :=
  if s == "-" then some [] else (s.splitOn ",").mapM parseRec

def parseDirEntry (s : String) : Option (FName × Bytes) :=
  match s.splitOn "=" with
  | [a, b] => (parseHex b).map (fun x => (parseName a, x))
  | _ => none

def parseDir (ts : List String) : Option Dir :=
  match ts with
  | ["-"] => some []
  | _ => ts.mapM parseDirEntry

def sortDir (d : List (String × Bytes)) : List (String × Bytes) := (d.toArray.qsort (fun a b => a.1 < b.1)).toList

def showDir (d : Dir) : String :=
  if d.isEmpty then "-" else " ".intercalate ((sortDir (d.map (fun f => (f.1.show, f.2)))).map (fun f => f.1 ++ "=" ++ showHex f.2))

def showImg (rec dat : Bytes) : String := showHex rec ++ ":" ++ showHex dat

def handleAof : List String → Option String
  | "aofload" :: cfg :: now :: files => do
    let cfg ← cfg.toNat?
    let now ← now.toInt?
    let imgs ← files.mapM parseImg
    let (rs, ok) := loadFiles cfg now imgs
    pure (showRecs rs ++ ";" ++ (if ok then "ok" else "err"))
  | ["aofappend", cfg, img, more] => do
    let cfg ← cfg.toNat?
    let img ← parseImg img
    let more ← parseRecs more
    let (r, d) := appendAfterRestart cfg img.log img.dat more
    pure (showImg r d)
  | ["aofwrites", cfg, recs] => do
    let cfg ← cfg.toNat?
    let recs ← parseRecs recs
    pure (",".intercalate ((writeSizes cfg recs).map (fun p => toString p.1 ++ ":" ++ toString p.2)))
  | ["aofdl", ef, e, s, c, n] => do
    let ef ← ef.toNat?
    let e ← e.toNat?
    let s ← s.toInt?
    let c ← c.toInt?
    let n ← n.toInt?
    let (ct, age, rem, sk, re) := journalReload ef e s c n
    pure (s!"{ct} {age} {rem} {if sk then 1 else 0} {re}")
  | "aofcompact" :: cfg :: cur :: keepIds :: dir => do
    let cfg ← cfg.toNat?
    let cur ← cur.toNat?
    let d ← parseDir dir
    let ids := keepIds.splitOn ","
    let keep := fun (r : Rec) => ids.contains (toHex ((r.buf.drop 20).take 33))
    let steps := compactionSteps cfg 0 keep cur d
    -- observation points of the harness: after the tmp file is written, then after every remove / rename
    let nWrite := steps.length - (steps.filter (fun o => match o with | .remove _ => true | .rename _ _ => true | _ => false)).length
    let pts := (List.range (steps.length - nWrite + 1)).map (· + nWrite)
    pure (" | ".intercalate (pts.map (fun i => showDir (applyPrefix i steps d))))
  | "aofrecover" :: cfg :: now :: dir => do
    let cfg ← cfg.toNat?
    let now ← now.toInt?
    let d ← parseDir dir
    match recoverDir cfg now d with
    | none => pure "err"
    | some rs => pure (showRecs rs ++ ";ok")
  | _ => none

end Driver
