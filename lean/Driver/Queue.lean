import Driver.Util
import Slock.Model.Queue
import Driver.Queue2
/-! Driver commands for the internal queues (C20).

  queue <kind> <baseNodeSize> <nodeSize> <queueSize> <op>;<op>;…      → <obs>;<obs>;…

kinds `lmq` `lq` `lcq` (LockManagerQueue / LockQueue / LockCommandQueue — one model, three textual copies):
  push:<id> (0 = nil) → ok          pushl:<id> → ok|full        pop popr head tail → <id>|nil
  len → <int>                       shrink:<n> → <int>          reset rellac resize restr free → ok
  iter → [a,b,-][c]…  (one bracket per IterNodeQueues(i), `-` = nil cell)
  hole:<pos> → ok|miss  (IterNodeQueues(i)[p] = nil for the pos-th cell of the iteration)
  st → internal fields
kind `long` (LongWaitLockQueue + restructuringLong*Queue of db.go):
  push:<id> pop remove:<id> restr len iter st
kinds `ring` `prio` `holder` `wait` (lock.go containers): see Driver/Queue2.lean.
A panic prints `panic` and ends the line (the harness discards the instance too).
-/
namespace Driver
open Slock.Queue

def qShowElem : Elem → String
  | none => "nil"
  | some n => toString n

def qShowCell : Elem → String
  | none => "-"
  | some n => toString n

def qShowArrs (l : List Arr) : String :=
  String.join (l.map (fun a => "[" ++ ",".intercalate (a.map qShowCell) ++ "]"))

def qShowRef (q : Q) (r : Ref) : String :=
  match r with
  | .nil => "nil"
  | .node j => (match refArr q r with | some [] => "z" | _ => "n" ++ toString j)
  | .dead _ => (match refArr q r with | some [] => "z" | _ => "d")

def qShowState (q : Q) : String :=
  let f := ".".intercalate [toString q.hni, toString q.hqi, toString q.hqs, toString q.tni, toString q.tqi, toString q.tqs,
    toString q.nodeIndex, toString q.nodeSize, toString q.shrinkNodeSize, toString q.queueSize, toString q.rellac]
  let sz := ".".intercalate (q.sizes.map toString)
  let nl := String.join (q.queues.map (fun s => match s with | none => "0" | some _ => "1"))
  let share := match q.headQueue, q.tailQueue with
    | .dead a, .dead b => if a = b then "s" else "x"
    | _, _ => ""
  s!"{f}/{sz}/{nl}/{qShowRef q q.headQueue}/{qShowRef q q.tailQueue}{share}"

/-- result of one op: observation and next state, or a terminal word -/
inductive QStep (σ : Type)
  | next (obs : String) (s : σ)
  | stop (obs : String)

def qLift {α σ : Type} (r : Res α) (f : α → QStep σ) : QStep σ :=
  match r with
  | .ok a => f a
  | .panic => .stop "panic"
  | .unmodelled => .stop "unmodelled"

def qElemOfId (n : Nat) : Elem := if n = 0 then none else some n

def qStep (q : Q) (op : String) : QStep Q :=
  match op.splitOn ":" with
  | ["push", a] => match a.toNat? with
    | some n => qLift (push q (qElemOfId n)) (fun q => .next "ok" q)
    | none => .stop "bad-op"
  | ["pushl", a] => match a.toNat? with
    | some n => qLift (pushLeft q (qElemOfId n)) (fun (q, ok) => .next (if ok then "ok" else "full") q)
    | none => .stop "bad-op"
  | ["pop"] => qLift (pop q) (fun (q, x) => .next (qShowElem x) q)
  | ["popr"] => qLift (popRight q) (fun (q, x) => .next (qShowElem x) q)
  | ["head"] => qLift (head q) (fun x => .next (qShowElem x) q)
  | ["tail"] => qLift (tail q) (fun x => .next (qShowElem x) q)
  | ["len"] => qLift (len q) (fun n => .next (toString n) q)
  | ["shrink", a] => match a.toNat? with
    | some n => qLift (shrink q n) (fun (q, r) => .next (toString r) q)
    | none => .stop "bad-op"
  | ["reset"] => qLift (reset q) (fun q => .next "ok" q)
  | ["rellac"] => qLift (rellac q) (fun q => .next "ok" q)
  | ["resize"] => qLift (resize q) (fun q => .next "ok" q)
  | ["restr"] => qLift (restructuring q) (fun q => .next "ok" q)
  | ["free"] => qLift (freeQueue q) (fun q => .next "ok" q)
  | ["iter"] => qLift (iterAll q) (fun l => .next (qShowArrs l) q)
  | ["hole", a] => match a.toNat? with
    | some n => qLift (hole q n) (fun (q, ok) => .next (if ok then "ok" else "miss") q)
    | none => .stop "bad-op"
  | ["st"] => .next (qShowState q) q
  | _ => .stop "bad-op"

def qLongStep (l : LongQ) (op : String) : QStep LongQ :=
  match op.splitOn ":" with
  | ["push", a] => match a.toNat? with
    | some n => qLift (longPush l n) (fun l => .next "ok" l)
    | none => .stop "bad-op"
  | ["pop"] => qLift (longPop l) (fun (l, x) => .next (qShowElem x) l)
  | ["remove", a] => match a.toNat? with
    | some n => qLift (longRemove l n) (fun l => .next "ok" l)
    | none => .stop "bad-op"
  | ["restr"] => qLift (longRestructuring l) (fun l => .next "ok" l)
  | ["len"] => qLift (len l.q) (fun n => .next (toString n) l)
  | ["iter"] => qLift (iterAll l.q) (fun a => .next (qShowArrs a) l)
  | ["st"] => .next (qShowState l.q ++ "/" ++ toString l.lockCount ++ "/" ++ toString l.freeCount) l
  | _ => .stop "bad-op"

def qRun {σ : Type} (step : σ → String → QStep σ) : σ → List String → List String → List String
  | _, [], acc => acc.reverse
  | s, op :: ops, acc =>
    match step s op with
    | .next o s' => qRun step s' ops (o :: acc)
    | .stop o => (o :: acc).reverse

def qOps (s : String) : List String := (s.splitOn ";").filter (· ≠ "")

def handleQueue : List String → Option String
  | "queue" :: kind :: b :: n :: s :: rest => do
    let b ← b.toNat?
    let n ← n.toNat?
    let s ← s.toNat?
    let ops := match rest with
      | [o] => qOps o
      | _ => []
    if kind == "lmq" || kind == "lq" || kind == "lcq" then
      match newQueue b n s with
      | .ok q => some (";".intercalate (qRun qStep q ops []))
      | .panic => some "panic"
      | .unmodelled => some "unmodelled"
    else if kind == "long" then
      match newQueue b n s with
      | .ok q => some (";".intercalate (qRun qLongStep { q := q, lockCount := 0, freeCount := 0, idx := [] } ops []))
      | .panic => some "panic"
      | .unmodelled => some "unmodelled"
    else handleQueue2 ("queue" :: kind :: toString b :: toString n :: toString s :: rest)
  | _ => none

end Driver
