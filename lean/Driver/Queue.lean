import Driver.Util
/-! Driver commands: Queue (stub — replaced by the real handler). -/
namespace Driver

def handleQueue : List String → Option String
  | _ => none

end Driver
