import Driver.Util
import Slock.Model.Engine
/-! Driver command for the lock engine:
  engine <now0> <op>;<op>;…      one whole operation sequence per line
ops:  L|U req conn flag lockId key tflag timeout eflag expried count rcount   |  T (one second)  |  R 0|1 (leader)  |  S (snapshot)
output: per op, `;`-joined: replies `conn:req:result:lcount:lrcount:lockId:count:rcount` `,`-joined (`-` if none); S prints the state.
-/
namespace Driver
open Slock.Engine

def showReply (r : Reply) : String :=
  s!"{r.conn}:{r.req}:{r.result}:{r.lcount}:{r.lrcount}:{r.lockId}:{r.count}:{r.rcount}"

def showReplies (rs : List Reply) : String :=
  if rs.isEmpty then "-" else ",".intercalate (rs.map showReply)

def sortKeys (ks : List Key) : List Key := sortBySeq (·.key) ks

def showExp (t : Nat) : String := if t == INF_TIME then "inf" else toString t

def showKey (k : Key) : String :=
  let hs := " ".intercalate (k.holders.map (fun h => s!"{h.cmd.lockId}.{h.depth}.{showExp h.expT}.{h.cmd.req}"))
  let ws := " ".intercalate (k.waiters.map (fun w => s!"{w.cmd.lockId}.{w.cmd.req}.{w.timeoutT}"))
  s!"k{k.key}={k.locked}/{if k.waited then 1 else 0}/[{hs}]/[{ws}]"

def showCtr (c : Counters) : String :=
  s!"lc={c.lockCount} uc={c.unLockCount} ld={c.lockedCount.toNat % 4294967296} wc={c.waitCount.toNat % 4294967296} to={c.timeoutedCount} ex={c.expriedCount} ue={c.unlockErrorCount}"

def showDB (db : DB) : String :=
  "|".intercalate ((sortKeys db.keys).map showKey) ++ "|" ++ showCtr db.ctr

def parseCmd (ts : List String) : Option Cmd :=
  match ts.mapM String.toNat? with
  | some [req, conn, flag, lockId, key, tflag, timeout, eflag, expried, count, rcount] =>
    some { req, conn, flag, lockId, key, tflag, timeout, eflag, expried, count, rcount }
  | some [req, conn, flag, lockId, key, tflag, timeout, eflag, expried, count, rcount, mgr] =>
    some { req, conn, flag, lockId, key, tflag, timeout, eflag, expried, count, rcount, mgr := mgr != 0 }
  | _ => none

def engineOp (db : DB) (op : String) : Option (DB × String) :=
  match (op.splitOn " ").filter (· ≠ "") with
  | "L" :: ts => do let c ← parseCmd ts; let (d, rs) := opLock db c; pure (d, showReplies rs)
  | "U" :: ts => do let c ← parseCmd ts; let (d, rs) := opUnlock db c; pure (d, showReplies rs)
  | ["T"] => let (d, rs) := opTick db; some (d, showReplies rs)
  | ["R", b] => some ({ db with leader := b == "1" }, "-")
  | ["S"] => some (db, showDB db)
  | _ => none

def runEngine (db : DB) : List String → List String → Option (List String)
  | [], acc => some acc.reverse
  | op :: ops, acc =>
    match engineOp db op with
    | some (d, s) => runEngine d ops (s :: acc)
    | none => none

def handleEngine : List String → Option String
  | "engine" :: now0 :: rest => do
    let n ← now0.toNat?
    let ops := ((" ".intercalate rest).splitOn ";").filter (· ≠ "")
    let outs ← runEngine (DB.init n) ops []
    pure (";".intercalate outs)
  | _ => none

end Driver
