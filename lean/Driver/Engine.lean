import Driver.Util
/-! Driver commands: Engine (stub — replaced by the real handler). -/
namespace Driver

def handleEngine : List String → Option String
  | _ => none

end Driver
