/-! Line-protocol helpers for the model driver (core only). -/
namespace Driver

def hexDigit (n : Nat) : Char :=
  if n < 10 then Char.ofNat (48 + n) else Char.ofNat (87 + n)

def hexVal (c : Char) : Option Nat :=
  if '0' ≤ c ∧ c ≤ '9' then some (c.toNat - 48)
  else if 'a' ≤ c ∧ c ≤ 'f' then some (c.toNat - 87)
  else if 'A' ≤ c ∧ c ≤ 'F' then some (c.toNat - 55)
  else none

def toHex (bs : List UInt8) : String :=
  String.ofList (bs.flatMap (fun b => [hexDigit (b.toNat / 16), hexDigit (b.toNat % 16)]))

def parseHexAux : List Char → Option (List UInt8)
  | [] => some []
  | [_] => none
  | a :: b :: rest => do
    let x ← hexVal a
    let y ← hexVal b
    let r ← parseHexAux rest
    pure ((x * 16 + y).toUInt8 :: r)

/-- "-" denotes the empty byte string -/
def parseHex (s : String) : Option (List UInt8) :=
  if s == "-" then some [] else parseHexAux s.toList

def showHex (bs : List UInt8) : String := if bs.isEmpty then "-" else toHex bs

end Driver
