import Driver.Codec
import Driver.Queue
import Driver.Value
import Driver.Engine
import Driver.Aof
import Driver.Text
import Driver.Elect
import Driver.Repl
import Driver.Conn
import Driver.Engine2
import Driver.Trans
import Driver.Ack
import Driver.Ms
/-! `slockmodel`: reads one operation per line on stdin, prints the model's observation per line. -/
namespace Driver

def dispatch (line : String) : String :=
  let toks := (line.splitOn " ").filter (· ≠ "")
  match toks with
  | [] => ""
  | "#" :: _ => line
  | _ =>
    match handleCodec toks <|> handleQueue toks <|> handleValue toks <|> handleEngine toks <|> handleAof toks
        <|> handleText toks <|> handleElect toks <|> handleRepl toks <|> handleConn toks <|> handleEngine2 toks
        <|> handleTrans toks <|> handleAck toks <|> handleMs toks with
    | some r => r
    | none => "bad-op"

partial def loop (h : IO.FS.Stream) (out : IO.FS.Stream) : IO Unit := do
  let line ← h.getLine
  if line.isEmpty then return ()
  let l := String.ofList (line.toList.reverse.dropWhile (fun c => c == '\n' || c == '\r')).reverse
  out.putStrLn (dispatch l)
  loop h out

end Driver

def main : IO Unit := do
  let i ← IO.getStdin
  let o ← IO.getStdout
  Driver.loop i o
